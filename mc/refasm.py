"""refasm - reference assembler for a structured core language over the probe ISA.

A program is a dict  path -> list of statements; a statement is a tuple (see RENDER below).  The
text given to the real assembler is *rendered from* the structure; the reference never parses
source text and shares no code with bespokeasm.  It implements what the property statements
C02-C06, C08, C16, C17 say, nothing more; where they are silent it raises DontCare.

Expression operands ("vals"):  int | ('lab', name) | ('lab+', name, k)
"""
from __future__ import annotations

REGISTERS = ('a', 'b', 'sp')
KEYWORDS = {
    'org', 'memzone', 'align', 'fill', 'zero', 'zerountil', 'byte', '2byte', '4byte', '8byte', 'cstr', 'asciiz',
    'include', 'require', 'create_memzone', 'define', 'if', 'elif', 'else', 'endif', 'ifdef', 'ifndef',
    'mute', 'unmute', 'emit', 'LSB',
} | {f'BYTE{i}' for i in range(10)}

DATA_DIRECTIVE = {1: '.byte', 2: '.2byte', 4: '.4byte', 8: '.8byte'}


class Reject(Exception):
    pass


class NeedChoice(Exception):
    """raised when a planned run meets more unspecified conditions than the plan has readings for"""


class DontCare(Exception):
    pass


# ------------------------------------------------------------------------------------------------
# rendering

def rval(v):
    if isinstance(v, int):
        return str(v) if v >= 0 else f'0-{-v}' if False else str(v)
    if v[0] == 'lab':
        return v[1]
    if v[0] == 'lab+':
        return f'{v[1]}+{v[2]}' if v[2] >= 0 else f'{v[1]}-{-v[2]}'
    if v[0] == 'chr':
        return f"'{v[1]}'"
    if v[0] == 'chr+':
        return f"'{v[1]}'+{v[2]}"
    raise ValueError(v)


def rcond(c):
    k = c[0]
    if k == 'num':
        return str(c[1])
    if k == 'cmp':           # ('cmp', lhs, op, rhs) with lhs/rhs int, symbol name or ('add', x, y, ...)
        side = lambda x: '+'.join(str(t) for t in x[1:]) if isinstance(x, tuple) else str(x)
        return f'{side(c[1])} {c[2]} {side(c[3])}'
    if k == 'sym':
        return c[1]
    raise ValueError(c)


def render_stmt(s):
    k = s[0]
    if k == 'sameline':          # ('sameline', ('label', name), stmt): the label written in front of the statement it labels
        return f'{s[1][1]}: ' + render_stmt(s[2]).strip()
    if k == 'joined':            # ('joined', stmt, stmt, ...): several instructions written on one line
        return '    ' + ' '.join(render_stmt(t).strip() for t in s[1:])
    if k == 'label':
        return f'{s[1]}:'
    if k == 'const':
        return f'{s[1]} = {rval(s[2])}'
    if k in ('nop', 'hlt'):
        return f'    {k}'
    if k == 'ldi':
        return f'    ldi {s[1]}, {rval(s[2])}'
    if k == 'jmp':
        return f'    jmp {rval(s[1])}'
    if k == 'brr':
        return f'    brr {rval(s[1])}'
    if k == 'n12':
        return f'    n12 {rval(s[1])}'
    if k == 'm2':
        return f'    m2 {rval(s[1])}, {rval(s[2])}'
    if k == 'data':
        return f'    {DATA_DIRECTIVE[s[1]]} ' + ', '.join(rval(v) for v in s[2])
    if k == 'fill':
        return f'    .fill {rval(s[1])}, {rval(s[2])}'
    if k == 'zero':
        return f'    .zero {rval(s[1])}'
    if k == 'zerountil':
        return f'    .zerountil {rval(s[1])}'
    if k == 'org':
        return f'.org {rval(s[1])}' + (f' "{s[2]}"' if s[2] is not None else '')
    if k == 'align':
        return '.align' + (f' {s[1]}' if s[1] is not None else '')
    if k == 'memzone':
        return f'.memzone {s[1]}'
    if k == 'mute':
        return '#mute'
    if k == 'unmute':
        return '#unmute'
    if k == 'if':
        return f'#if {rcond(s[1])}'
    if k == 'elif':
        return f'#elif {rcond(s[1])}'
    if k == 'ifdef':
        return f'#ifdef {s[1]}'
    if k == 'ifndef':
        return f'#ifndef {s[1]}'
    if k == 'else':
        return '#else'
    if k == 'endif':
        return '#endif'
    if k == 'define':         # ('define', name, value[, separator]): the separator (default one space) is surface syntax only
        sep = s[3] if len(s) > 3 else ' '
        return f'#define{sep}{s[1]}' + (f'{sep}{s[2]}' if s[2] is not None else '')
    if k == 'create_memzone':
        sep = s[4] if len(s) > 4 else ' '
        return f'#create_memzone{sep}{s[1]}{sep}{s[2]}{sep}{s[3]}'
    if k == 'include':
        return f'#include "{s[1]}"'
    if k == 'comment':
        return f'; {s[1]}'
    if k == 'blank':
        return ''
    if k == 'rawbytes':      # verbatim line whose bytes the generator states: ('rawbytes', text, bytes)
        return s[1]
    raise ValueError(s)


def render(stmts):
    return '\n'.join(render_stmt(s) for s in stmts) + '\n'


def render_files(files):
    return {path: render(stmts) for path, stmts in files.items()}


# ------------------------------------------------------------------------------------------------

class Line:
    __slots__ = ('file', 'lineno', 'stmt', 'zone', 'scope', 'muted', 'addr', 'size', 'bytes', 'kind')

    def __init__(self, file, lineno, stmt, zone, scope, muted):
        self.file = file
        self.lineno = lineno
        self.stmt = stmt
        self.zone = zone
        self.scope = scope        # (file_instance, region_id or None)
        self.muted = muted
        self.addr = None
        self.size = 0
        self.bytes = b''
        self.kind = stmt[0]


class Result:
    def __init__(self):
        self.status = 'OK'
        self.reason = ''
        self.mem = {}             # address -> byte of unmuted lines
        self.muted_mem = {}       # address -> byte of muted lines
        self.lines = []           # placed Line objects, in processing order
        self.labels = {}          # (scopekey, name) -> value
        self.state_key = None     # canonical reference state at end of parse
        self.notes = set()
        self.selected = []        # for C08: markers selected

    def image(self, start=0, end=None, fill=0):
        if end is None:
            if not self.mem:
                return b''
            end = max(self.mem)
        return bytes(self.mem.get(a, fill & 0xFF) for a in range(start, end + 1))


class Params:
    def __init__(self, address_size=16, endian='little', origin=0, page_size=1, zones=None, data=None,
                 constants=None, symbols=None, cli_symbols=None):
        self.address_size = address_size
        self.endian = endian
        self.origin = origin
        self.page_size = page_size
        self.zones = list(zones or [])           # [{'name','start','end'}]
        self.data = list(data or [])             # [{'name','address','value','size'}]
        self.constants = list(constants or [])   # [{'name','value'}]
        self.symbols = list(symbols or [])       # [{'name','value'}]
        self.cli_symbols = list(cli_symbols or [])   # ['NAME' | 'NAME=VALUE']

    @property
    def addr_bytes(self):
        return (self.address_size + 7) // 8


class RefAsm:
    def __init__(self, params: Params, files: dict, main='main.asm', incdirs=(), defects=()):
        self.defects = set(defects)      # named defect modes reproducing recorded known findings
        self.dc_plan = None              # readings for conditions on undefined symbols (see eval_cond)
        self.dc_used = 0
        self.p = params
        # a label written in front of a statement is the label followed by the statement
        # ... and statements written on one line ('joined') are those statements one after the other; all keep their source line number
        self.files, self.linenos = {}, {}
        for path, stmts in files.items():
            flat, nums = [], []
            for lineno, st in enumerate(stmts, 1):
                parts = (st[1], st[2]) if st[0] == 'sameline' else tuple(st[1:]) if st[0] == 'joined' else (st,)
                flat += parts
                nums += [lineno] * len(parts)
            self.files[path], self.linenos[path] = flat, nums
        self.main = main
        self.incdirs = tuple(incdirs)
        self.res = Result()
        # zones
        self.zones = {}
        self.cursor = {}
        for z in params.zones:
            if z['name'] in self.zones:
                raise DontCare('duplicate predefined zone')
            self.zones[z['name']] = (z['start'], z['end'])
        if 'GLOBAL' not in self.zones:
            self.zones['GLOBAL'] = (0, (1 << params.address_size) - 1)
        for name, (s, e) in self.zones.items():
            self.cursor[name] = s
        self.cursor['GLOBAL'] = params.origin
        # symbols
        self.symbols = {}
        for s in params.symbols:
            self._define_symbol(s['name'], s.get('value', ''))
        for s in params.cli_symbols:
            if '=' in s:
                n, v = s.split('=', 1)
                self._define_symbol(n.strip(), v.strip())
            else:
                self._define_symbol(s.strip(), '')
        # labels
        self.glob = {}
        self.filelabels = {}      # file_instance -> {name: value}
        self.local = {}           # (file_instance, region) -> {name: value}
        self.addr_labels = set()  # keys of labels that are addresses (not constants)
        for c in params.constants:
            self._set_label(('G',), c['name'], c['value'], force_global=True)
        for d in params.data:
            self._set_label(('G',), d['name'], d['address'], force_global=True)
        self.mute = 0
        self.used_files = set()
        self.file_instances = 0
        self.region_counter = 0
        self.ambiguous = set()

    # -- symbols --------------------------------------------------------------------------------
    def _define_symbol(self, name, value):
        if name in self.symbols:
            raise Reject(f'symbol {name} defined twice')
        self.symbols[name] = '' if value is None else str(value)

    # -- labels ---------------------------------------------------------------------------------
    @staticmethod
    def label_kind(name):
        if name.startswith('.'):
            return 'L'
        if name.startswith('_'):
            return 'F'
        return 'G'

    def _set_label(self, scope, name, value, force_global=False):
        kind = 'G' if force_global else self.label_kind(name)
        base = name[1:] if kind in ('L', 'F') and not force_global else name
        if base in KEYWORDS:
            raise Reject(f'label {name} is a keyword')
        if name in REGISTERS:
            raise Reject(f'label {name} is a register')
        if kind == 'G':
            d = self.glob
        elif kind == 'F':
            d = self.filelabels.setdefault(scope[0], {})
        else:
            if scope[1] is None:
                raise Reject(f'local label {name} without an enclosing non-local label')
            d = self.local.setdefault(scope, {})
        if name in d:
            raise Reject(f'label {name} defined twice in one scope')
        d[name] = value

    def lookup(self, scope, name):
        if name in REGISTERS:
            raise Reject(f'register {name} used as a value')
        kind = self.label_kind(name)
        if kind == 'G':
            d = self.glob
        elif kind == 'F':
            d = self.filelabels.get(scope[0], {})
        else:
            d = self.local.get(scope, {}) if scope[1] is not None else {}
        if name not in d:
            raise Reject(f'label {name} has no visible definition')
        if self.ambiguous and (scope if kind == 'L' else scope[0] if kind == 'F' else None, name) in self.ambiguous:
            raise DontCare('label followed by an address-moving directive')
        return d[name]

    def value(self, scope, v):
        if isinstance(v, int):
            return v
        if v[0] == 'lab':
            return self.lookup(scope, v[1])
        if v[0] == 'lab+':
            return self.lookup(scope, v[1]) + v[2]
        if v[0] == 'chr':
            return ord(v[1])
        if v[0] == 'chr+':
            return ord(v[1]) + v[2]
        raise ValueError(v)

    # -- conditions ------------------------------------------------------------------------------
    def eval_cond(self, c):
        """The statement does not say what a condition that mentions an undefined symbol evaluates to (or whether it is an error).
        With a plan (assemble_alternatives) each such condition takes the next planned reading - True, False or 'reject' -
        so that everything else in the program is still judged; without a plan the program is not judged at all."""
        try:
            return self._eval_cond(c)
        except DontCare as e:
            if self.dc_plan is None or 'undefined symbol' not in str(e):
                raise
            i = self.dc_used
            self.dc_used += 1
            if i >= len(self.dc_plan):
                raise NeedChoice()
            if self.dc_plan[i] == 'reject':
                raise Reject('condition on an undefined symbol (read as an error)')
            return self.dc_plan[i]

    def _eval_cond(self, c):
        k = c[0]
        if k == 'num':
            return c[1] != 0
        if k == 'sym':
            if c[1] not in self.symbols:
                raise DontCare('condition on an undefined symbol')
            return self._symnum(c[1]) != 0
        if k == 'cmp':
            a = self._operand(c[1])
            b = self._operand(c[3])
            return {'==': a == b, '!=': a != b, '>': a > b, '>=': a >= b, '<': a < b, '<=': a <= b}[c[2]]
        raise ValueError(c)

    def _symnum(self, name):
        v = self.symbols[name]
        seen = {name}
        while v in self.symbols:
            if v in seen:
                raise DontCare('cyclic symbol in a condition')
            seen.add(v)
            v = self.symbols[v]
        try:
            return int(v)
        except ValueError:
            raise DontCare('non-numeric symbol in a condition')

    def _operand(self, x):
        if isinstance(x, int):
            return x
        if isinstance(x, tuple):            # ('add', a, b, ...)
            return sum(self._operand(t) for t in x[1:])
        if x not in self.symbols:
            raise DontCare('condition on an undefined symbol')
        return self._symnum(x)

    # -- pass 1: walk the source in processing order ----------------------------------------------
    def locate(self, name):
        dirs = []
        main_dir = self.main.rsplit('/', 1)[0] if '/' in self.main else ''
        for d in (main_dir,) + self.incdirs:
            if d not in dirs:
                dirs.append(d)
        hits = []
        for d in dirs:
            path = f'{d}/{name}' if d else name
            if path in self.files:
                hits.append(path)
        if not hits:
            raise Reject(f'include file {name} not found')
        if len(hits) > 1:
            raise Reject(f'include file {name} found in several directories')
        return hits[0]

    def walk_file(self, path, outer_active=True):
        if path in self.used_files:
            raise Reject(f'{path} included more than once')
        self.used_files.add(path)
        self.file_instances += 1
        finst = self.file_instances
        zone = 'GLOBAL'
        region = None
        stack = []      # frames: [parent_active, taken, active, seen_else]
        for pos, s in enumerate(self.files[path]):
            lineno = self.linenos[path][pos]
            k = s[0]
            active = outer_active and all(f[2] for f in stack)
            if k in ('if', 'ifdef', 'ifndef'):
                if active:
                    if k == 'if':
                        c = self.eval_cond(s[1])
                    elif k == 'ifdef':
                        c = s[1] in self.symbols
                    else:
                        c = s[1] not in self.symbols
                else:
                    c = False
                stack.append([active, c, active and c, False])
                continue
            if k == 'elif':
                if not stack:
                    raise Reject('#elif without an opener')
                f = stack[-1]
                if f[3]:
                    raise DontCare('#elif after #else')
                if f[0] and not f[1]:
                    c = self.eval_cond(s[1])
                    f[2] = c
                    f[1] = c
                else:
                    f[2] = False
                continue
            if k == 'else':
                if not stack:
                    raise Reject('#else without an opener')
                f = stack[-1]
                if f[3]:
                    raise DontCare('#else after #else')
                f[3] = True
                f[2] = f[0] and not f[1]
                f[1] = True
                continue
            if k == 'endif':
                if not stack:
                    raise Reject('#endif without an opener')
                stack.pop()
                continue
            if not active:
                continue
            if k == 'mute':
                self.mute += 1      # a counter: n mutes need n unmutes (pinned by the repository's own tests)
                continue
            if k == 'unmute':
                if self.mute > 0:
                    self.mute -= 1
                continue
            if k == 'define':
                self._define_symbol(s[1], s[2])
                continue
            if k == 'create_memzone':
                self.create_zone(s[1], s[2], s[3])
                continue
            if k == 'include':
                target = self.locate(s[1])
                if 'include_fresh_mute' in self.defects:
                    saved, self.mute = self.mute, 0
                    self.walk_file(target, True)
                    self.mute = saved
                else:
                    self.walk_file(target, True)
                continue
            if k in ('comment', 'blank'):
                continue
            # ---- ordinary lines -------------------------------------------------------------------
            if k == 'org':
                if s[2] is not None and s[2] not in self.zones:
                    raise Reject(f'unknown zone {s[2]}')
                zone = s[2] if s[2] is not None else 'GLOBAL'
                region = None
            elif k == 'memzone':
                if s[1] not in self.zones:
                    raise Reject(f'unknown zone {s[1]}')
                zone = s[1]
                region = None
            elif k == 'label':
                if self.label_kind(s[1]) != 'L':
                    self.region_counter += 1
                    region = self.region_counter
            line = Line(path, lineno, s, zone, (finst, region), self.mute > 0)
            self.res.lines.append(line)
            if k == 'const':
                v = s[2]
                if not isinstance(v, int):
                    key = (self.label_kind(v[1]), v[1])
                    if key in self.addr_labels or not self._defined_now(line.scope, v[1]):
                        raise DontCare('constant defined from an address label or a later definition')
                self._set_label(line.scope, s[1], self.value(line.scope, v))
            elif k == 'label':
                # validity is checked where it is defined, value bound in the address pass
                self._check_label_definable(line.scope, s[1])
                self.addr_labels.add((self.label_kind(s[1]), s[1]))
        if stack:
            raise DontCare('unterminated conditional chain at end of file')

    def _defined_now(self, scope, name):
        try:
            self.lookup(scope, name)
            return True
        except Reject:
            return False

    def _check_label_definable(self, scope, name):
        kind = self.label_kind(name)
        base = name[1:] if kind in ('L', 'F') else name
        if base in KEYWORDS:
            raise Reject(f'label {name} is a keyword')
        if name in REGISTERS:
            raise Reject(f'label {name} is a register')
        if kind == 'L' and scope[1] is None:
            raise Reject(f'local label {name} without an enclosing non-local label')

    def create_zone(self, name, start, end):
        g = self.zones['GLOBAL']
        if name in self.zones:
            raise Reject(f'zone {name} declared twice')
        if start < g[0] or end > g[1]:
            raise Reject(f'zone {name} not contained in GLOBAL')
        if start > end:
            raise Reject(f'zone {name} inverted')
        if end > (1 << self.p.address_size) - 1:
            raise Reject(f'zone {name} exceeds the address width')
        self.zones[name] = (start, end)
        self.cursor[name] = start

    # -- pass 2: addresses --------------------------------------------------------------------------
    def line_size(self, line):
        s = line.stmt
        k = line.kind
        if k in ('nop', 'hlt'):
            return 1
        if k in ('ldi', 'brr', 'n12'):
            return 2
        if k == 'm2':
            return 4
        if k == 'jmp':
            return 1 + self.p.addr_bytes
        if k == 'data':
            return s[1] * len(s[2])
        if k in ('fill', 'zero'):
            n = self.value(line.scope, s[1])
            if n < 0:
                raise DontCare('negative fill count')
            return n
        if k == 'zerountil':
            a = self.value(line.scope, s[1])
            return a - line.addr + 1 if a >= line.addr else 0
        if k == 'rawbytes':
            return len(s[2])
        return 0

    def place(self):
        g0, g1 = self.zones['GLOBAL']
        lines = self.res.lines
        soft = None
        for i, line in enumerate(lines):
            k = line.kind
            z0, z1 = self.zones[line.zone]
            if k == 'org':
                n = self.value(line.scope, line.stmt[1])
                addr = n if line.stmt[2] is None else z0 + n
                if addr < 0:
                    raise DontCare('negative origin')
                if addr < g0 or addr > g1:
                    soft = soft or 'origin outside GLOBAL'       # rejected only if a byte is then placed there
                if addr < z0 or addr > z1 + 1:
                    soft = soft or 'origin outside its zone'
                line.addr = addr
                self.cursor[line.zone] = addr
                continue
            cur = self.cursor[line.zone]
            if k == 'align':
                p = line.stmt[1] if line.stmt[1] is not None else self.p.page_size
                if p <= 0:
                    raise DontCare('non-positive page size')
                addr = ((cur + p - 1) // p) * p
                if addr > z1 + 1:
                    soft = soft or 'alignment moves past the zone end'
                line.addr = addr
                self.cursor[line.zone] = addr
                continue
            line.addr = cur
            if k == 'label':
                self._set_label(line.scope, line.stmt[1], cur)
                j = i + 1
                while j < len(lines) and lines[j].kind in ('label', 'const'):
                    j += 1
                if j < len(lines) and (lines[j].kind in ('org', 'align', 'memzone') or lines[j].zone != line.zone):
                    # "the next line after its definition" is a directive that moves the address: the statement
                    # does not say which of the two addresses the label takes
                    self.ambiguous.add((line.scope if self.label_kind(line.stmt[1]) == 'L' else
                                        line.scope[0] if self.label_kind(line.stmt[1]) == 'F' else None, line.stmt[1]))
                continue
            if k in ('const', 'memzone'):
                continue
            size = self.line_size(line)
            line.size = size
            if size > 0:
                lo, hi = cur, cur + size - 1
                if lo < z0 or hi > z1 or lo < g0 or hi > g1:
                    if line.muted:
                        raise DontCare('muted bytes outside the zone')
                    raise Reject(f'bytes at {lo}..{hi} outside zone {line.zone} {z0}..{z1}')
            elif cur > z1 + 1 or cur < z0:
                soft = soft or 'zero-length line outside the zone'
            self.cursor[line.zone] = cur + size
        if soft:
            raise DontCare(soft)

    # -- pass 3: bytes --------------------------------------------------------------------------------
    def to_bytes(self, value, nbytes):
        value &= (1 << (8 * nbytes)) - 1
        out = []
        for i in range(nbytes):
            out.append((value >> (8 * i)) & 0xFF)
        if self.p.endian == 'big':
            out.reverse()
        return bytes(out)

    def emit(self):
        g0, g1 = self.zones['GLOBAL']
        for line in self.res.lines:
            s, k = line.stmt, line.kind
            if k in ('nop', 'hlt'):
                line.bytes = bytes([0xEA if k == 'nop' else 0x76])
            elif k == 'ldi':
                v = self.value(line.scope, s[2])
                if v < -128 or v > 255:
                    raise Reject('ldi immediate does not fit 8 bits')
                line.bytes = bytes([0xA0 | {'a': 0, 'b': 1}[s[1]], v & 0xFF])
            elif k == 'jmp':
                v = self.value(line.scope, s[1])
                if v < g0 or v > g1:
                    raise Reject('jmp target outside GLOBAL')
                line.bytes = bytes([0x4C]) + self.to_bytes(v, self.p.addr_bytes)
            elif k == 'brr':
                v = self.value(line.scope, s[1])
                if v < g0 or v > g1:
                    raise Reject('brr target outside GLOBAL')
                off = v - line.addr
                if off < -128 or off > 127:
                    raise Reject('brr offset out of range')
                line.bytes = bytes([0x80, off & 0xFF])
            elif k in ('n12', 'm2'):
                out = b''
                for v in s[1:]:
                    v = self.value(line.scope, v)
                    if v < -128 or v > 255:
                        raise Reject('n12 immediate does not fit 8 bits')
                    out += bytes([0x30 | ((v & 0xFF) >> 4), ((v & 0xF) << 4)])
                line.bytes = out
            elif k == 'data':
                line.bytes = b''.join(self.to_bytes(self.value(line.scope, v), s[1]) for v in s[2])
            elif k == 'fill':
                line.bytes = bytes([self.value(line.scope, s[2]) & 0xFF]) * line.size
            elif k in ('zero', 'zerountil'):
                line.bytes = bytes(line.size)
            elif k == 'rawbytes':
                line.bytes = bytes(s[2])
            assert len(line.bytes) == line.size, (line.stmt, line.size, line.bytes)
        # predefined data blocks are lines of the GLOBAL zone too
        blocks = []
        for d in self.p.data:
            blocks.append((d['address'], bytes([d['value'] & 0xFF]) * d['size'], False, ('predefined', d['name'])))
        for line in self.res.lines:
            if line.size:
                blocks.append((line.addr, line.bytes, line.muted, (line.file, line.lineno)))
        # two unmuted lines on one address: rejected whatever muted lines lie around them
        seen = {}
        for addr, data, muted, who in blocks:
            if muted:
                continue
            for i in range(len(data)):
                if addr + i in seen:
                    raise Reject(f'address {addr + i} occupied twice: {seen[addr + i]} and {who}')
                seen[addr + i] = who
        occupied = {}
        for addr, data, muted, who in blocks:
            for i, b in enumerate(data):
                a = addr + i
                if a in occupied:
                    if muted or occupied[a][1]:
                        raise DontCare('overlap involving a muted line')
                    raise Reject(f'address {a} occupied twice: {occupied[a][0]} and {who}')
                occupied[a] = (who, muted)
                if muted:
                    self.res.muted_mem[a] = b
                else:
                    self.res.mem[a] = b

    def run(self):
        try:
            self.walk_file(self.main)
            self.place()
            self.emit()
        except Reject as e:
            self.res.status = 'REJECT'
            self.res.reason = str(e)
        except DontCare as e:
            self.res.status = 'DC'
            self.res.reason = str(e)
        self.res.state_key = (
            tuple(sorted(self.symbols.items())), tuple(sorted(self.zones.items())), tuple(sorted(self.cursor.items())),
            self.mute, tuple(sorted(self.glob.items())),
        )
        return self.res


def assemble(params, files, main='main.asm', incdirs=(), defects=()):
    return RefAsm(params, files, main, incdirs, defects).run()


def assemble_alternatives(params, files, main='main.asm', incdirs=(), defects=(), max_choices=2):
    """-> list of Results, one per combination of readings of the conditions that mention an undefined symbol (each read as
    true, as false, or as an error).  A program without such conditions has exactly one.  More than max_choices such
    conditions: a single DC result."""
    out = []
    todo = [()]
    while todo:
        plan = todo.pop()
        r = RefAsm(params, files, main, incdirs, defects)
        r.dc_plan = plan
        try:
            res = r.run()
        except NeedChoice:
            if len(plan) >= max_choices:
                dc = Result()
                dc.status, dc.reason = 'DC', 'more conditions on undefined symbols than readings are enumerated for'
                return [dc]
            todo += [plan + (True,), plan + (False,), plan + ('reject',)]
            continue
        res.plan = plan
        out.append(res)
    return out
