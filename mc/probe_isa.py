"""The fixed probe ISA used by the program-level checks (refasm knows its encodings by table).

    nop            1 byte   EA
    hlt            1 byte   76
    ldi r, imm8    2 bytes  A<r> ii            (4-bit opcode A, 4-bit register code, 8-bit argument)
    jmp addr       1+AB     4C + address (address_size/8 bytes, default endian)
    brr rel8       2 bytes  80 oo              (offset from the instruction address, -128..127)
    n12 imm8       2 bytes  3i i0              (12 bits: 4-bit opcode 3, 8-bit argument that is not byte aligned; padded)
    m2 x, y        4 bytes  macro: n12 x / n12 y   (each step padded to whole bytes on its own)

All opcodes differ from every fill/marker value used by the checks.
"""
import copy


def probe_isa(address_size=16, endian='little', origin=None, page_size=None, zones=None, data=None,
              constants=None, symbols=None, cstr_terminator=None, embedded_strings=None, name=None,
              version=None, registers=('a', 'b', 'sp')):
    general = {'address_size': address_size, 'endian': endian, 'registers': list(registers),
               'min_version': '0.3.0'}
    if origin is not None:
        general['origin'] = origin
    if page_size is not None:
        general['page_size'] = page_size
    if cstr_terminator is not None:
        general['cstr_terminator'] = cstr_terminator
    if embedded_strings is not None:
        general['allow_embedded_strings'] = embedded_strings
    if name is not None or version is not None:
        general['identifier'] = {'name': name or 'probe', 'version': version or '1.0.0'}
    addr_bits = ((address_size + 7) // 8) * 8
    isa = {
        'description': 'verification probe ISA',
        'general': general,
        'operand_sets': {
            'reg': {'operand_values': {
                'a': {'type': 'register', 'register': 'a', 'bytecode': {'value': 0, 'size': 4}},
                'b': {'type': 'register', 'register': 'b', 'bytecode': {'value': 1, 'size': 4}},
            }},
            'imm8': {'operand_values': {'i': {'type': 'numeric', 'argument': {'size': 8, 'byte_align': True}}}},
            'imm8u': {'operand_values': {'u': {'type': 'numeric', 'argument': {'size': 8, 'byte_align': False}}}},
            'addr': {'operand_values': {'ad': {'type': 'address', 'argument': {'size': addr_bits, 'byte_align': True}}}},
            'rel': {'operand_values': {'r': {'type': 'relative_address',
                                             'argument': {'size': 8, 'byte_align': True, 'min': -128, 'max': 127}}}},
        },
        'instructions': {
            'nop': {'bytecode': {'value': 0xEA, 'size': 8}},
            'hlt': {'bytecode': {'value': 0x76, 'size': 8}},
            'ldi': {'bytecode': {'value': 0xA, 'size': 4},
                    'operands': {'count': 2, 'operand_sets': {'list': ['reg', 'imm8']}}},
            'jmp': {'bytecode': {'value': 0x4C, 'size': 8},
                    'operands': {'count': 1, 'operand_sets': {'list': ['addr']}}},
            'brr': {'bytecode': {'value': 0x80, 'size': 8},
                    'operands': {'count': 1, 'operand_sets': {'list': ['rel']}}},
            'n12': {'bytecode': {'value': 0x3, 'size': 4},
                    'operands': {'count': 1, 'operand_sets': {'list': ['imm8u']}}},
        },
        'macros': {
            'm2': [{'operands': {'count': 2, 'operand_sets': {'list': ['imm8u', 'imm8u']}},
                    'instructions': ['n12 @ARG(0)', 'n12 @ARG(1)']}],
        },
    }
    pre = {}
    if zones:
        pre['memory_zones'] = copy.deepcopy(zones)
    if data:
        pre['data'] = copy.deepcopy(data)
    if constants:
        pre['constants'] = copy.deepcopy(constants)
    if symbols:
        pre['symbols'] = copy.deepcopy(symbols)
    if pre:
        isa['predefined'] = pre
    return isa
