"""C15 - assembly is deterministic.

Part A (schedules): the only source of run-to-run variation inside the assembler is the iteration
order of sets, so the explorer owns it (mc/setsched.py): every iteration of a set of hash-randomised
elements is a choice point, and every execution with at most one (thorough: two) deviating choice
point is replayed and must give byte-identical outputs.
Part B (end to end): the same programs through the real CLI for every combination of hash seed,
working directory, include-directory order and process environment.
"""
import itertools
import json
import os
import subprocess
import sys
import tempfile

from mc import world
from mc.world import Case, Outcome

ID = 'C15'
LEVEL = 'model_checking'

ISA = {
    'general': {'address_size': 16, 'endian': 'little', 'registers': ['a', 'b', 'sp', 'x', 'y'], 'min_version': '0.3.0'},
    'operand_sets': {
        'reg': {'operand_values': {r: {'type': 'register', 'register': r, 'bytecode': {'value': i + 1, 'size': 4}}
                                   for i, r in enumerate(['a', 'b', 'x', 'y'])}},
        'imm': {'operand_values': {'i': {'type': 'numeric', 'argument': {'size': 8, 'byte_align': True}}}},
        'mix': {'operand_values': {
            'e': {'type': 'enumeration', 'bytecode': {'size': 4, 'value_dict': {'foo': 9, 'bar': 10, 'baz': 11}},
                  'argument': {'size': 8, 'byte_align': True, 'value_dict': {'foo': 1, 'bar': 2, 'baz': 3}}},
            'ra': {'type': 'register', 'register': 'a', 'bytecode': {'value': 1, 'size': 4}},
            'n': {'type': 'numeric', 'bytecode': {'value': 15, 'size': 4}, 'argument': {'size': 8, 'byte_align': True}}}},
        'addr': {'operand_values': {'ad': {'type': 'address', 'argument': {'size': 16, 'byte_align': True}}}},
        # enumeration keys that differ only in letter case are different keys, in every run
        'cased': {'operand_values': {'k': {'type': 'enumeration', 'bytecode': {'size': 4, 'value_dict': {'z': 1, 'Z': 2, 'zed': 3, 'ZED': 4, 'Nz': 5, 'nZ': 6}},
                                           'argument': {'size': 8, 'byte_align': True, 'value_dict': {'z': 0x11, 'Z': 0x22, 'zed': 0x33, 'ZED': 0x44, 'Nz': 0x55, 'nZ': 0x66}}}}},
        # two alternatives of one kind that accept the same text: whichever rule orders them, it is the same in every run
        'two': {'operand_values': {
            'short': {'type': 'numeric', 'bytecode': {'value': 1, 'size': 4}, 'argument': {'size': 8, 'byte_align': True}},
            'wide': {'type': 'numeric', 'bytecode': {'value': 2, 'size': 4}, 'argument': {'size': 16, 'byte_align': True}},
            'rb': {'type': 'register', 'register': 'b', 'bytecode': {'value': 3, 'size': 4}},
            # ... and two index operands of one kind behind one register
            'xa': {'type': 'indexed_register', 'register': 'x', 'bytecode': {'value': 4, 'size': 4},
                   'index_operands': {'s8': {'type': 'numeric', 'argument': {'size': 8, 'byte_align': True}},
                                      'w16': {'type': 'numeric', 'argument': {'size': 16, 'byte_align': True}}}}}},
    },
    'instructions': {
        'nop': {'bytecode': {'value': 0xEA, 'size': 8}},
        # (listed before `ld` and `w`: the extraction pattern tries mnemonics in definition order, and `ld.w` must win over `ld`)
        'ld.w': {'bytecode': {'value': 0xD, 'size': 4}, 'operands': {'count': 1, 'operand_sets': {'list': ['reg']}}},
        'ld': {'bytecode': {'value': 0xA, 'size': 4}, 'operands': {'count': 2, 'operand_sets': {'list': ['reg', 'imm']}}},
        'ldx': {'bytecode': {'value': 0xB, 'size': 4}, 'operands': {'count': 1, 'operand_sets': {'list': ['mix']}}},
        'l': {'bytecode': {'value': 0xC1, 'size': 8}},
        'mov.b': {'bytecode': {'value': 0xC, 'size': 4}, 'operands': {'count': 1, 'operand_sets': {'list': ['reg']}}},
        'movxb': {'bytecode': {'value': 0xC2, 'size': 8}},
        'w': {'bytecode': {'value': 0xC3, 'size': 8}},
        'jmp': {'bytecode': {'value': 0x4C, 'size': 8}, 'operands': {'count': 1, 'operand_sets': {'list': ['addr']}}},
        'pick': {'bytecode': {'value': 0x7, 'size': 4}, 'operands': {'count': 1, 'operand_sets': {'list': ['two']}}},
        'sel': {'bytecode': {'value': 0x8, 'size': 4}, 'operands': {'count': 1, 'operand_sets': {'list': ['cased']}}},
    },
    'macros': {'mac': [{'operands': {'count': 2, 'operand_sets': {'list': ['reg', 'imm']}}, 'instructions': ['ld @REG(0), @ARG(1)', 'ldx @ARG(1)']}],
               'ma': [{'instructions': ['nop', 'l']}]},
    'predefined': {'symbols': [{'name': 'S1', 'value': '1'}, {'name': 'S2', 'value': 'S1'}],
                   'constants': [{'name': 'KC', 'value': 3}, {'name': 'KD', 'value': 4}],
                   'memory_zones': [{'name': 'zz', 'start': 0x40, 'end': 0x5F}, {'name': 'zy', 'start': 0x60, 'end': 0x6F}]},
}

PROGRAMS = [
    ('unique includes', {'main.asm': 'start: nop\n#include "u1.asm"\n#include "u2.asm"\n jmp u1l\n', 'd1/u1.asm': 'u1l: ld a, 1\n',
                         'd2/u2.asm': 'u2l: ldx foo\n'}, ('d1', 'd2', 'd3')),
    ('ambiguous include', {'main.asm': ' nop\n#include "dup.asm"\n', 'd1/dup.asm': ' .byte 1\n', 'd2/dup.asm': ' .byte 2\n'}, ('d1', 'd2', 'd3')),
    ('include in main dir too', {'main.asm': ' nop\n#include "m.asm"\n', 'm.asm': ' .byte 7\n', 'd1/x.asm': ' .byte 1\n'}, ('d1', 'd2')),
    ('same file in main dir and d1', {'main.asm': ' nop\n#include "m.asm"\n', 'm.asm': ' .byte 7\n', 'd1/m.asm': ' .byte 8\n'}, ('d1', 'd2')),
    # the directory of the main file also named as an include directory, first, last or in between
    ('main dir named too, same file in d1', {'main.asm': ' nop\n#include "m.asm"\n', 'm.asm': ' .byte 7\n', 'd1/m.asm': ' .byte 8\n'}, ('.', 'd1', 'd2')),
    ('main dir named too, unique files', {'main.asm': ' nop\n#include "m.asm"\n#include "x.asm"\n', 'm.asm': ' .byte 7\n', 'd1/x.asm': ' .byte 1\n', 'd2/y.asm': ' .byte 2\n'},
     ('.', 'd1', 'd2')),
    ('joined mnemonics', {'main.asm': 'top: ld a, 5 ldx 7 mov.b b nop l movxb\n ldx bar ldx a ld x, KC\n mac y, KD ma\n ld.w y\n w\n jmp top\n'}, ()),
    ('labels symbols zones', {'main.asm': '#define QQ S2\n.memzone zz\nza: .byte QQ, KC\n.memzone zy\nzb: .2byte za, zb\n#ifdef S1\n ldx baz\n#endif\n'
                                          ' .cstr "hi"\n'}, ('d3',)),
    ('nested includes', {'main.asm': '#include "n1.asm"\n nop\n', 'd1/n1.asm': '#include "n2.asm"\n ld b, 2\n', 'd2/n2.asm': ' ldx 9\n'}, ('d2', 'd1')),
    ('missing include', {'main.asm': ' nop\n#include "none.asm"\n'}, ('d1', 'd2')),
    ('one file reachable through two include directories', {'main.asm': ' nop\n#include "lk.asm"\n ld a, 2\n#include "u1.asm"\n',
                                                            'd1/lk.asm': 'lkl: .byte 1\n', 'd2/lk.asm': '@symlink:../d1/lk.asm',
                                                            'd3/u1.asm': 'u1l: ld a, 1\n'}, ('d1', 'd2', 'd3')),
    ('layout-time expressions across zones', {'main.asm': '.memzone zz\nza: .byte 1, 2, 3\nza_end:\n.memzone zy\nzb: .fill za_end - za, $EE\n'
                                                          '.memzone GLOBAL\n nop\n.org 8 "zz"\n .byte 9\n.memzone zy\n.zerountil zb + 5\n'}, ()),
    ('alternatives of one kind', {'main.asm': 'p0: pick 5\n pick KC\n pick b\n pick p0 + 1\n pick x + 5\n pick x+KD\n nop\n'}, ()),
    ('both quote characters and comments', {'main.asm': ' .cstr "it\'s"  ; don\'t "panic"\n .byte \'"\', 2  ; the quote character, isn\'t it\n'
                                                        ' .byte "a;b", 3 ; \'x\' "y"\n nop\n'}, ()),
    ('enumeration keys differing in case', {'main.asm': ' sel z\n sel Z\n sel zed\n sel ZED\n sel Nz\n sel nZ\n nop\n'}, ()),
    ('nested conditionals', {'main.asm': '#ifdef S1\n ld a, 1\n#ifdef NOPE\n ld b, 2\n#endif\n ld x, 3\n#else\n nop\n#endif\n#ifndef S1\n#else\n#if KC == 3\n ldx foo\n#else\n ldx bar\n#endif\ntail: ld y, 4\n#endif\n jmp tail\n'}, ()),
    ('text outside ASCII', {'main.asm': ' nop ; waits 10 \u00b5s\nmsg: .cstr "caf\u00e9"\n#include "u8.asm"\n ld a, 1\n', 'd1/u8.asm': ' .byte 7 ; \u00fcber\n'}, ('d1',)),
    ('several -D', {'main.asm': ' .byte LA, LB, LC\n#if LC >= 1\n nop\n#endif\n'}, ()),
    ('one name in several -D', {'main.asm': ' .byte LV\n#if LV >= 2\n nop\n#endif\n'}, ()),
]
# command-line symbol definitions of a program (-D), in command-line order
DEFINES = {'several -D': ('LA=1', 'LB=2', 'LC=LA'), 'one name in several -D': ('LV=1', 'LV=2', 'LV=3', 'LV=4')}
FORMATS_A = ['listing', 'intel_hex']
FORMATS_B = ['listing', 'hex', 'intel_hex', 'minhex']


def meta(tier):
    q = tier == 'quick'
    return {
        'rule': 'part A: 19 programs (the directory of the main file also named as an include directory; text outside ASCII in comments and strings; nested conditional blocks; enumeration keys that differ only in letter case; several include directories with unique, ambiguous, shadowing, nested, linked and missing files; registers; '
                'mnemonics that are prefixes of one another or contain a period; macros; symbols; zones; several -D definitions, also of one name; directives whose size or target is computed from labels of another zone) x 2 output formats; the default '
                'schedule and every schedule with one (thorough: two) deviating choice point (all permutations for sets of <=4 elements, '
                'reversal and every rotation above) must produce identical status, image and pretty print; the default schedule is '
                'replayed twice. Part B: the same programs x 4 formats through the real CLI for hash seeds 0..3 (thorough 0..15) x 2 (thorough 3) '
                'working directories x every permutation of the include directories x {bare, cluttered, optimized (PYTHONOPTIMIZE=2, PYTHONUTF8=1), c-locale (LC_ALL=C)} environment, and every combination of spellings of the include '
                'directories (relative, ./, through a detour, the same directory twice under two spellings); '
                'plus an include directory spelled ~/inc under three values of HOME; plus the pretty print on standard output (pipe vs pseudo-terminal vs file) for a program with terminal control sequences in comments and strings; plus the repository\'s example programs under their own definitions (quick: the small ones) x formats x hash seeds with rotating environment and working directory; non-trivial = execution whose schedule or environment differs from the reference execution; '
                'states = distinct (program, format, number of choice points); transitions = executions',
        'bounds': {'programs': [p[0] for p in PROGRAMS], 'hash_seeds': 4 if q else 16, 'deviating_choice_points': 1 if q else 2},
        'assumptions': ['sets are created by set(...) calls, set displays or set comprehensions inside bespokeasm (that is what the import '
                        'hook rewrites); only sets containing a str/bytes/object element are permuted (the order of int sets does not '
                        'depend on the hash seed)',
                        'dict order is insertion order in CPython >= 3.7 and therefore not a source of nondeterminism'],
        'floors': {'evaluations': 200, 'nontrivial': 100, 'statuses': ['OK', 'REJECT'], 'clauses': ['schedule', 'end-to-end']},
        'nshards': 64, 'xcheck': 0,
    }


# ---- part A ---------------------------------------------------------------------------------------------------

def run_schedule(case, schedule):
    from mc import setsched
    setsched.install()
    setsched.SCHED.reset(schedule)
    out = world.run_inproc(case)
    points = list(setsched.SCHED.points)
    setsched.SCHED.reset({})
    return out, points


def same(a, b):
    return a.status == b.status and a.image == b.image and a.pretty == b.pretty


def diff_msg(a, b, what):
    if a.status != b.status:
        return f'{what}: status {a.status} vs {b.status} ({a.detail} / {b.detail})'
    if a.image != b.image:
        return f'{what}: images differ ({a.image.hex() if a.image else None} vs {b.image.hex() if b.image else None})'
    return f'{what}: pretty-print outputs differ'


def explore_schedules(acc, pi, fmt, bound):
    from mc import setsched
    name, files, incdirs = PROGRAMS[pi]
    case = Case(ISA, files, incdirs=incdirs, pretty=fmt, defines=DEFINES.get(name, ()))
    base, points = run_schedule(case, {})
    acc.count_eval(1, base.status)
    again, points2 = run_schedule(case, {})
    acc.count_eval(1, again.status)
    if not same(base, again) or points != points2:
        raise RuntimeError(f'replaying the default schedule of {name!r} twice gave different observations (harness does not own the nondeterminism)')
    acc.state((pi, fmt, len(points)))
    acc.extra[f'choice_points:{name}:{fmt}'] = len(points)

    def alts(k):
        return setsched.SCHED.alternatives(k)

    def go(schedule, first, depth):
        for i in range(first, len(points)):
            for alt in range(alts(points[i][0])):
                sch = dict(schedule)
                sch[i] = alt
                out, pts = run_schedule(case, sch)
                acc.count_eval(1, out.status)
                acc.transition()
                if not same(base, out):
                    spec = {'type': 'schedule', 'schedule': {str(k): v for k, v in sch.items()},
                            'sites': {str(k): points[k][1] for k in sch}}
                    acc.violation([case], spec, diff_msg(base, out, f'{name} [{fmt}] with set order deviation at {[points[k][1] for k in sch]}'),
                                  [base, out])
                acc.judge(clause='schedule', nontrivial_key=(pi, fmt, tuple(sorted(sch.items()))))
                if depth > 1:
                    go(sch, i + 1, depth - 1)
    go({}, 0, bound)
    acc.sample({'program': name, 'format': fmt, 'choice_points': [{'set_size': k, 'iterated_at': s} for k, s in points]})


# ---- part B -----------------------------------------------------------------------------------------------------

BARE = {'PATH': '/usr/bin:/bin', 'HOME': '/nonexistent', 'LANG': 'C'}
CLUTTER = dict(os.environ, LC_ALL='C.UTF-8', FOO_BAR='1', PYTHONUNBUFFERED='1', COLUMNS='40', TZ='Pacific/Kiritimati')
# interpreter switches that come from the environment: assertions and docstrings stripped, UTF-8 mode, no user site
OPTIMIZED = dict(BARE, PYTHONOPTIMIZE='2', PYTHONUTF8='1', PYTHONNOUSERSITE='1', LANG='POSIX')
# the C / POSIX locale forced through LC_ALL (source files are read the same way whatever the locale says)
CLOCALE = dict(BARE, LC_ALL='C', LANG='C.UTF-8')
ENVS = {'bare': BARE, 'cluttered': CLUTTER, 'optimized': OPTIMIZED, 'c-locale': CLOCALE}


def shard(acc, tier, idx, n):
    q = tier == 'quick'
    ctr = 0
    for pi in range(len(PROGRAMS)):
        for fmt in FORMATS_A:
            ctr += 1
            if ctr % n == idx:
                explore_schedules(acc, pi, fmt, 1 if q else 2)
    seeds = range(4 if q else 16)
    cwds = ('<work>', '/') if q else ('<work>', '/', '<root>')
    formats_b = ['listing', 'minhex'] if q else FORMATS_B
    for pi, (name, files, incdirs) in enumerate(PROGRAMS):
        perms = list(itertools.permutations(incdirs)) if len(incdirs) <= 3 else [incdirs]
        for fmt in formats_b:
            ref_case = Case(ISA, files, incdirs=incdirs, pretty=fmt, defines=DEFINES.get(name, ()))
            ref = None
            for seed, cwd, perm, envname in itertools.product(seeds, cwds, perms, ('bare', 'cluttered', 'optimized', 'c-locale')):
                ctr += 1
                if ctr % n != idx:
                    continue
                if (seed + len(str(cwd)) + perms.index(perm)) % 3 != {'bare': 0, 'cluttered': 0, 'optimized': 1, 'c-locale': 2}[envname] and envname != 'bare':
                    continue        # cluttered / optimized environment on a third of the grid each
                if ref is None:
                    ref = world.run_cli(ref_case, env_extra={'PYTHONHASHSEED': '0'}, env_base=BARE)
                    acc.count_eval(1, ref.status)
                case = Case(ISA, files, incdirs=perm, pretty=fmt, defines=DEFINES.get(name, ()))
                out = world.run_cli(case, env_extra={'PYTHONHASHSEED': str(seed)}, cwd=cwd, env_base=ENVS[envname])
                acc.count_eval(1, out.status)
                acc.transition()
                if not same(ref, out):
                    spec = {'type': 'e2e', 'seed': seed, 'cwd': cwd, 'env': envname}
                    acc.violation([ref_case, case], spec, diff_msg(ref, out, f'{name} [{fmt}] seed={seed} cwd={cwd} -I order={perm} env={envname}'),
                                  [ref, out])
                acc.judge(clause='end-to-end', nontrivial_key=(pi, fmt, seed, cwd, perm, envname))
    spellings(acc, idx, n, ctr, q)
    corpus_end_to_end(acc, idx, n, q)
    stdout_listing(acc, idx, n)
    home_independence(acc, idx, n)


def spellings(acc, idx, n, ctr0, q):
    """The same include directories written in different ways (relative to the working directory, with ./ or a detour,
    the same directory twice under two spellings in either order) must give the same outputs as the absolute paths."""
    ctr = ctr0
    variants = {
        'd1': ['=d1', '=./d1', '=d2/../d1'],
        'd2': ['=d2', '=./d2'],
        'd3': ['=d3'],
        '.': ['=.', '=./', '=d1/..'],
    }
    for pi, (name, files, incdirs) in enumerate(PROGRAMS):
        if not incdirs:
            continue
        for fmt in (['listing', 'minhex'] if q else FORMATS_B):
            ref_case = Case(ISA, files, incdirs=incdirs, pretty=fmt)
            ref = None
            combos = []
            for choice in itertools.product(*[variants[d] for d in incdirs]):
                combos.append(tuple(choice))
                combos.append(tuple(reversed(choice)))
            # the same directory twice under two spellings, in both orders
            first = incdirs[0]
            for a, b in itertools.permutations(variants[first] + [first], 2):
                combos.append((a, b) + tuple(incdirs[1:]))
            for combo in dict.fromkeys(combos):
                ctr += 1
                if ctr % n != idx:
                    continue
                if ref is None:
                    ref = world.run_cli(ref_case, env_extra={'PYTHONHASHSEED': '0'}, env_base=BARE)
                    acc.count_eval(1, ref.status)
                # the include directories must exist: create them through an absolute twin listed in the files
                case = Case(ISA, dict(files, **{f'{d}/.keep': '' for d in ('d1', 'd2', 'd3')}), incdirs=combo, pretty=fmt)
                out = world.run_cli(case, env_extra={'PYTHONHASHSEED': '1'}, cwd='<work>', env_base=BARE)
                acc.count_eval(1, out.status)
                acc.transition()
                if not same(ref, out):
                    spec = {'type': 'e2e', 'seed': 1, 'cwd': '<work>', 'env': 'bare'}
                    acc.violation([Case(ISA, dict(files, **{f'{d}/.keep': '' for d in ('d1', 'd2', 'd3')}), incdirs=incdirs, pretty=fmt), case],
                                  spec, diff_msg(ref, out, f'{name} [{fmt}] include directories written as {combo}'), [ref, out])
                acc.judge(clause='end-to-end', nontrivial_key=(pi, fmt, 'spelling', combo))
    return ctr


def corpus_end_to_end(acc, idx, n, q):
    """The repository's example programs under their own definitions through the real CLI: same image and pretty print for every
    hash seed, in every environment and from another working directory (quick: the 4- and 8-bit machines; thorough: all)."""
    from mc import corpus
    progs = corpus.programs(small_only=q)
    seeds = (1, 2, 3) if q else tuple(range(1, 8))
    formats = ('listing', 'intel_hex') if q else FORMATS_B
    ctr = 0
    for prog in progs:
        for fmt in formats:
            ctr += 1
            if ctr % n != idx:
                continue
            ref_case = corpus.case_for(prog, pretty=fmt)
            ref = world.run_cli(ref_case, env_extra={'PYTHONHASHSEED': '0'}, env_base=BARE)
            acc.count_eval(1, ref.status)
            for k, seed in enumerate(seeds):
                envname = ('bare', 'cluttered', 'optimized', 'c-locale')[(k + ctr) % 4]
                cwd = ('<work>', '/', '<root>')[(k + ctr // 3) % 3]
                out = world.run_cli(ref_case, env_extra={'PYTHONHASHSEED': str(seed)}, cwd=cwd, env_base=ENVS[envname])
                acc.count_eval(1, out.status)
                acc.transition()
                if not same(ref, out):
                    spec = {'type': 'e2e', 'seed': seed, 'cwd': cwd, 'env': envname}
                    msg = diff_msg(ref, out, f'example program {prog[0]} [{fmt}] seed={seed} cwd={cwd} env={envname}')
                    acc.violation([ref_case, ref_case], spec, msg[:600], [ref, out])
                acc.judge(clause='end-to-end', nontrivial_key=('corpus', prog[0], fmt, seed))


def home_independence(acc, idx, n):
    """An include directory spelled with a leading tilde on the command line is a directory name like any other (the shell, not the
    assembler, expands tildes): the same files are found whatever HOME says, also when HOME holds a file of the same name."""
    import shutil
    files = {'main.asm': ' nop\n#include "defs.asm"\n .byte MAGIC\n', '~/inc/defs.asm': 'MAGIC = $11\n',
             'ha/inc/defs.asm': 'MAGIC = $22\n', 'hb/inc/defs.asm': 'MAGIC = $33\n'}
    for k, fmt in enumerate(FORMATS_B):
        if (k + 1) % n != idx:
            continue
        case = Case(ISA, files, incdirs=('=~/inc',), pretty=fmt)
        outs = []
        for home in ('ha', 'hb', None):
            root = tempfile.mkdtemp(prefix='bespokeverif_c15h_', dir='/dev/shm' if os.path.isdir('/dev/shm') else None)
            try:
                env = {'PYTHONHASHSEED': '0'}
                if home is not None:
                    env['HOME'] = os.path.join(root, 'w', home)
                outs.append(world.run_cli(case, env_extra=env, cwd='<work>', env_base=BARE, root=root))
            finally:
                shutil.rmtree(root, ignore_errors=True)
            acc.count_eval(1, outs[-1].status)
            acc.transition()
        msg = None
        for name, o in zip(('HOME=<work>/hb', 'HOME=/nonexistent'), outs[1:]):
            if not same(outs[0], o):
                msg = diff_msg(outs[0], o, f'-I ~/inc [{fmt}] with HOME=<work>/ha vs {name}')
                break
        if msg:
            spec = {'type': 'home', 'format': fmt}
            acc.violation([case], spec, msg[:600], outs[:2])
        acc.judge(clause='end-to-end', nontrivial_key=('home', fmt))


def _run_stdout(case, mode, root):
    """Runs the CLI with the pretty print going to standard output, which is a pipe or a pseudo-terminal -> (returncode, bytes)"""
    import pty
    import termios
    work, asm, cfg, out, pp = world._materialize(case, root)
    argv = world.cli_argv(case, work, asm, cfg, out, pp)
    i = argv.index('--pretty-print-output')
    del argv[i:i + 2]
    env = dict(BARE, PYTHONPATH=world.SRC, PYTHONDONTWRITEBYTECODE='1', PYTHONHASHSEED='0')
    if mode == 'pipe':
        p = subprocess.run(argv, stdout=subprocess.PIPE, stderr=subprocess.PIPE, stdin=subprocess.DEVNULL, env=env, cwd=work, timeout=120)
        return p.returncode, p.stdout
    master, slave = pty.openpty()
    attrs = termios.tcgetattr(slave)
    attrs[1] &= ~termios.OPOST           # no output post-processing: the bytes arrive as written
    termios.tcsetattr(slave, termios.TCSANOW, attrs)
    p = subprocess.Popen(argv, stdout=slave, stderr=subprocess.PIPE, stdin=subprocess.DEVNULL, env=env, cwd=work)
    os.close(slave)
    chunks = []
    while True:
        try:
            b = os.read(master, 65536)
        except OSError:
            break
        if not b:
            break
        chunks.append(b)
    os.close(master)
    p.stderr.read()
    return p.wait(timeout=120), b''.join(chunks)


STDOUT_PROGRAM = (' nop ; clears the screen with \x1b[2J\x1b[H first\n'
                  'msg: .cstr "\x1b[1mHELLO\x1b[0m"\n'
                  ' ld a, 1 ; plain\n'
                  ' .byte "\x1b[31m", 7 ; red\n')


def stdout_listing(acc, idx, n):
    """The pretty print written to standard output is the same bytes whether standard output is a pipe or a terminal, and the same
    text as the one written to a file - also when the source carries terminal control sequences in comments and strings."""
    for k, fmt in enumerate(FORMATS_B):
        if k % n != idx:
            continue
        case = Case(ISA, {'main.asm': STDOUT_PROGRAM}, pretty=fmt, binary=False)
        root = tempfile.mkdtemp(prefix='bespokeverif_c15_', dir='/dev/shm' if os.path.isdir('/dev/shm') else None)
        try:
            rc_pipe, via_pipe = _run_stdout(case, 'pipe', root)
            rc_tty, via_tty = _run_stdout(case, 'tty', root)
        finally:
            import shutil
            shutil.rmtree(root, ignore_errors=True)
        to_file = world.run_cli(case, env_extra={'PYTHONHASHSEED': '0'}, env_base=BARE)
        acc.count_eval(3, 'OK' if rc_pipe == 0 else 'REJECT')
        acc.transition(3)
        msg = None
        if rc_pipe != rc_tty:
            msg = f'exit status {rc_pipe} with standard output on a pipe, {rc_tty} on a terminal'
        elif via_pipe != via_tty:
            msg = f'{fmt} on standard output differs between a pipe ({len(via_pipe)} bytes) and a terminal ({len(via_tty)} bytes)'
        elif to_file.pretty is not None and to_file.pretty.strip() not in via_pipe.decode('utf-8', 'replace').replace(world_dir_of(via_pipe), '<W>'):
            msg = f'{fmt} written to a file is not the text written to standard output'
        if msg:
            spec = {'type': 'stdout', 'format': fmt}
            acc.violation([case], spec, msg, [Outcome('OK' if rc_pipe == 0 else 'REJECT', None, via_pipe, None), Outcome('OK' if rc_tty == 0 else 'REJECT', None, via_tty, None)])
        acc.judge(clause='end-to-end', nontrivial_key=('stdout', fmt))


def world_dir_of(data):
    """The scratch directory named in a listing written to standard output (file names are shown with their directory)."""
    import re
    m = re.search(rb'(/[^\s]*bespokeverif_c15_[^/\s]*/w)', data)
    return m.group(1).decode() if m else '\0'


# ---- confirmation / replay ------------------------------------------------------------------------------------------

def judge(spec, outcomes):
    a, b = outcomes
    return None if same(a, b) else diff_msg(a, b, 'replay')


def confirm(viol):
    spec = viol['spec']
    if spec['type'] == 'e2e':
        ref = world.run_cli(Case.from_json(viol['cases'][0]), env_extra={'PYTHONHASHSEED': '0'}, env_base=BARE)
        out = world.run_cli(Case.from_json(viol['cases'][1]), env_extra={'PYTHONHASHSEED': str(spec['seed'])}, cwd=spec['cwd'],
                            env_base=ENVS[spec['env']])
        return judge(spec, [ref, out]), [ref, out]
    if spec['type'] == 'home':
        import shutil
        case = Case.from_json(viol['cases'][0])
        outs = []
        for home in ('ha', 'hb'):
            root = tempfile.mkdtemp(prefix='bespokeverif_c15h_', dir='/dev/shm' if os.path.isdir('/dev/shm') else None)
            try:
                outs.append(world.run_cli(case, env_extra={'PYTHONHASHSEED': '0', 'HOME': os.path.join(root, 'w', home)}, cwd='<work>', env_base=BARE, root=root))
            finally:
                shutil.rmtree(root, ignore_errors=True)
        return judge(spec, outs), outs
    if spec['type'] == 'stdout':
        case = Case.from_json(viol['cases'][0])
        root = tempfile.mkdtemp(prefix='bespokeverif_c15_', dir='/dev/shm' if os.path.isdir('/dev/shm') else None)
        try:
            rc_pipe, via_pipe = _run_stdout(case, 'pipe', root)
            rc_tty, via_tty = _run_stdout(case, 'tty', root)
        finally:
            import shutil
            shutil.rmtree(root, ignore_errors=True)
        outs = [Outcome('OK' if rc_pipe == 0 else 'REJECT', None, via_pipe, None), Outcome('OK' if rc_tty == 0 else 'REJECT', None, via_tty, None)]
        if rc_pipe != rc_tty or via_pipe != via_tty:
            return f'{spec["format"]} on standard output differs between a pipe ({len(via_pipe)} bytes) and a terminal ({len(via_tty)} bytes)', outs
        to_file = world.run_cli(case, env_extra={'PYTHONHASHSEED': '0'}, env_base=BARE)
        if to_file.pretty is not None and to_file.pretty.strip() not in via_pipe.decode('utf-8', 'replace').replace(world_dir_of(via_pipe), '<W>'):
            return f'{spec["format"]} written to a file is not the text written to standard output', outs
        return None, outs
    # schedule: replay in a fresh process with the import hook
    with tempfile.NamedTemporaryFile('w', suffix='.json', delete=False) as f:
        json.dump(viol, f, default=str)
        path = f.name
    try:
        p = subprocess.run([world.PYTHON, os.path.abspath(__file__), path], capture_output=True, text=True, timeout=300,
                           env=dict(os.environ, PYTHONPATH=os.path.dirname(os.path.dirname(os.path.dirname(os.path.abspath(__file__))))))
        res = json.loads(p.stdout.strip().splitlines()[-1])
    finally:
        os.unlink(path)
    outs = [Outcome(o['status'], o['detail'], None if o['image_hex'] is None else bytes.fromhex(o['image_hex']), o['pretty']) for o in res]
    return judge(spec, outs), outs


if __name__ == '__main__':
    sys.path.insert(0, os.path.dirname(os.path.dirname(os.path.dirname(os.path.abspath(__file__)))))
    v = json.load(open(sys.argv[1]))
    case = Case.from_json(v['cases'][0])
    a, _ = run_schedule(case, {})
    b, _ = run_schedule(case, {int(k): val for k, val in v['spec']['schedule'].items()})
    print(json.dumps([a.to_json(), b.to_json()]))
