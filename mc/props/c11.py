"""C11 - data and fill directives emit exactly the bytes they describe.

Product enumeration: directive x endianness x value lists (negative, oversized, label expressions,
forward references), strings over a character/escape alphabet in both quote styles x terminator
values, embedded strings, fill / zero / zerountil on both sides of the cursor.
"""
import itertools

from mc import refasm as R
from mc.histories import run_program
from mc.probe_isa import probe_isa
from mc.world import Case
from mc.judges import judge_expect, expect_spec

ID = 'C11'
LEVEL = 'exploration'

VALUES = [0, 1, -1, 255, 256, -128, -129, 2**15, 2**16 - 1, 2**16, 2**32, 2**63, 2**64 - 1, 2**64, -2**63,
          ('lab', 'L'), ('lab+', 'L', 1), ('lab+', 'BK', 300), ('chr', 'A'), ('chr+', 'b', 1)]
VALUES_SMALL = [1, -1, 256, 2**16 - 1, 2**32 + 5, ('lab', 'L'), ('chr', 'z')]

# (source text inside a double-quoted string, inside a single-quoted string, byte)
CHARS = [
    ('a', 'a', 0x61), (' ', ' ', 0x20), (',', ',', 0x2C), (';', ';', 0x3B), ('\\n', '\\n', 0x0A), ('\\x41', '\\x41', 0x41),
    ('\\\\', '\\\\', 0x5C), ('\\"', "\\'", None), ("'", '"', None), ('\\xe9', '\\xe9', 0xE9),       # an escape for a value above 0x7F is one byte too
    ('\\0', '\\0', 0x00), ('\\x00', '\\x00', 0x00),        # an escape that yields a NUL is a character like any other
]
TERMINATORS = [None, 0, 3, 0xFF]        # an explicit terminator of 0 as well as the default


def meta(tier):
    q = tier == 'quick'
    return {
        'rule': 'numeric: directive in .byte/.2byte/.4byte/.8byte x endianness x every value list of length <=2 over 20 values '
                '(length 3 over 7 values); strings: every string of length <=3 (quick: <=2 full, 3 over 5 characters) over 12 '
                'characters/escapes (incl. NUL escapes) x quote style x .byte/.cstr/.asciiz x terminator, and as embedded strings; fills: .fill n,v / '
                '.zero n / .zerountil a over n in {0,1,3}, v in {0,0x41,0x1FF,-1}, a in cursor+{-2,-1,0,1,3}; the same expression text (local / file labels) in several regions and files of one program; each test line sits '
                'between a 3-byte prefix and a labelled sentinel so that misplaced sizes are visible; non-trivial = value outside '
                '0..2^width-1, or a label expression, or a string with an escape / separator character, or a zero-length fill',
        'bounds': {'values': [R.rval(v) if not isinstance(v, int) else v for v in VALUES], 'chars': [c[0] for c in CHARS],
                   'terminators': TERMINATORS},
        'assumptions': ['terminator values above 255 are not generated (the statement does not say how they are reduced)',
                        'reference byte order and masking: mc/refasm.py to_bytes'],
        'floors': {'evaluations': 1000, 'nontrivial': 100, 'statuses': ['OK'], 'clauses': ['numeric', 'string', 'cstr', 'embedded', 'fill', 'scoped']},
        'nshards': 64,
    }


def wrap(stmt):
    return [('const', 'BK', 7), ('data', 1, [0x99, 0x98, 0x97]), stmt, ('label', 'L'), ('data', 1, [0xEE])]


def known_predicate(kind, info):
    return None


def shard(acc, tier, idx, n):
    q = tier == 'quick'
    ctr = 0
    # ---- numeric lists -----------------------------------------------------------------------------
    for endian in ('little', 'big'):
        params = R.Params(address_size=16, endian=endian)
        isa = probe_isa(16, endian)
        for width in (1, 2, 4, 8):
            lists = [(v,) for v in VALUES] + list(itertools.product(VALUES, repeat=2)) + \
                list(itertools.product(VALUES_SMALL, repeat=3))
            for vals in lists:
                ctr += 1
                if ctr % n != idx:
                    continue
                files = {'main.asm': wrap(('data', width, list(vals)))}
                big = any(isinstance(v, tuple) or v < 0 or v >= (1 << (8 * width)) for v in vals)
                first_chr = isinstance(vals[0], tuple) and vals[0][0] in ('chr', 'chr+')
                if not first_chr:
                    run_program(acc, params, isa, files, clause='numeric', nontrivial=(endian, width, vals) if big else None,
                                sample=(ctr % 501 == 0))
                    continue
                # lists that start with a character literal: known finding F24b is attributed only if the observed image is
                # exactly what "everything between the first and the last quote is one string" predicts
                ref = R.assemble(params, files)
                case = Case(isa, R.render_files(files))
                out = acc.run(case)
                spec = expect_spec(ref)
                msg = judge_expect(spec, [out])
                if msg:
                    args = ', '.join(R.rval(v) for v in vals)
                    a, b = args.find("'"), args.rfind("'")
                    predicted = bytes([0x99, 0x98, 0x97]) + \
                        b''.join(ord(ch).to_bytes(width, endian) for ch in args[a + 1:b]) + bytes([0xEE])
                    finding = 'F24b' if (out.status == 'OK' and out.image == predicted and b > a) else None
                    acc.violation([case], spec, msg, [out], finding=finding)
                acc.judge(clause='numeric', nontrivial_key=(endian, width, vals))
    # ---- strings -------------------------------------------------------------------------------------
    small = [CHARS[i] for i in (0, 2, 3, 4, 7)]
    strings = [()] + [(c,) for c in CHARS] + list(itertools.product(CHARS, repeat=2)) + \
        list(itertools.product(CHARS if not q else small, repeat=3))
    for term in TERMINATORS:
        params = R.Params(address_size=16, endian='little')
        isa = probe_isa(16, 'little', cstr_terminator=term)
        isa_emb = probe_isa(16, 'little', cstr_terminator=term, embedded_strings=True)
        tbyte = 0 if term is None else term & 0xFF
        for chars in strings:
            for quote in ('"', "'"):
                ctr += 1
                if ctr % n != idx:
                    continue
                qi = 0 if quote == '"' else 1
                text = ''.join(c[qi] for c in chars)
                data = [c[2] if c[2] is not None else (0x22 if (c[0] == '\\"') == (quote == '"') else 0x27) for c in chars]
                special = any(c[0] not in ('a', 'Z') for c in chars)
                for directive in ('.byte', '.cstr', '.asciiz'):
                    if directive == '.byte' and term is not None:
                        continue
                    if directive == '.byte' and len(chars) == 0:
                        continue
                    body = data + ([tbyte] if directive != '.byte' else [])
                    line = f'    {directive} {quote}{text}{quote}'
                    files = {'main.asm': wrap(('rawbytes', line, body))}
                    finding = None
                    ref, out, msg = run_c11(acc, params, isa, files, 'string' if directive == '.byte' else 'cstr',
                                            (term, chars, quote, directive) if special else None, text, ctr)
                if quote == '"' and len(chars) > 0:
                    line = f'    "{text}"'
                    files = {'main.asm': wrap(('rawbytes', line, data + [tbyte]))}
                    run_c11(acc, params, isa_emb, files, 'embedded', (term, chars, 'emb') if special else None, text, ctr)
    # ---- a label in front of a string datum whose text contains the label's own text (only the first `name:` is the label) -----------
    params = R.Params(address_size=16, endian='little')
    for term in (None, 3):
        isa = probe_isa(16, 'little', cstr_terminator=term, embedded_strings=True)
        tb = 0 if term is None else term
        for lab, text in itertools.product(('e', 'msg', '_f9', '.q'), ('{L}: x', 'the: {L}: end {L}:', 'a{L}:b', '{L}', ':{L}: :',
                                                                             'Name:   value  =  1', 'a\tb  c', '  lead and trail  ')):      # runs of blanks and a tab inside a labelled string
            t = text.replace('{L}', lab)
            data = [ord(c) for c in t]
            for directive, body in (('.byte', data), ('.cstr', data + [tb]), ('.asciiz', data + [tb]), ('', data + [tb])):
                ctr += 1
                if ctr % n != idx:
                    continue
                pre = [] if lab != '.q' else [('label', 'gq')]
                line = f'{lab}: {directive} "{t}"'.replace(':  "', ': "')
                files = {'main.asm': [('const', 'BK', 7), ('data', 1, [0x99, 0x98, 0x97])] + pre +
                         [('rawbytes', line, body), ('label', 'L'), ('data', 1, [0xEE])]}
                run_c11(acc, params, isa, files, 'string' if directive == '.byte' else 'cstr' if directive else 'embedded',
                        ('labelled', term, lab, text, directive), t, ctr)
    # ---- the same expression text in different label scopes (local regions, files) -----------------------
    for endian in ('little', 'big'):
        params = R.Params(address_size=16, endian=endian)
        isa = probe_isa(16, endian)
        for width in (1, 2, 4):
            for exprs in ([('lab', '.v')], [('lab+', '.v', 1), ('lab', '.v')], [('lab', '_f')], [('lab', '.v'), ('lab+', '_f', 2)]):
                ctr += 1
                if ctr % n != idx:
                    continue
                region = lambda g, pad: [('label', g), ('data', width, list(exprs))] + [('nop',)] * pad + [('label', '.v'), ('nop',)]
                main = [('label', '_f'), ('nop',)] + region('ga', 1) + region('gb', 3) + [('include', 'other.asm')] + region('gc', 0) + \
                    [('data', 1, [0xEE])]
                other = [('label', '_f'), ('nop',), ('nop',)] + region('gd', 2)
                files = {'main.asm': main, 'other.asm': other}
                run_program(acc, params, isa, files, clause='scoped', nontrivial=('scoped', endian, width, tuple(exprs)), sample=(width == 2),
                            priority=-1)
    # ---- fills ---------------------------------------------------------------------------------------
    params = R.Params(address_size=16, endian='little')
    isa = probe_isa(16, 'little')
    fills = []
    for cnt in (0, 1, 3, ('lab', 'BK')):
        for v in (0, 0x41, 0x1FF, -1, ('lab+', 'L', 0x100)):
            fills.append(('fill', cnt, v))
        fills.append(('zero', cnt))
    for a in (1, 2, 3, 4, 6, ('lab+', 'BK', -4), ('lab+', 'BK', 1)):
        fills.append(('zerountil', a))
    for st in fills:
        ctr += 1
        if ctr % n != idx:
            continue
        files = {'main.asm': wrap(st)}
        run_program(acc, params, isa, files, clause='fill', nontrivial=st, sample=True)
        # the same directive as the very first line of the program (cursor at address 0, and at a non-zero default origin)
        files0 = {'main.asm': [('const', 'BK', 7), st, ('label', 'L'), ('data', 1, [0xEE])]}
        run_program(acc, params, isa, files0, clause='fill', nontrivial=('at0', st), sample=False)
        p5 = R.Params(address_size=16, endian='little', origin=5)
        run_program(acc, p5, probe_isa(16, 'little', origin=5), files0, clause='fill', nontrivial=('at5', st), sample=False)


def run_c11(acc, params, isa, files, clause, nontrivial, text, ctr):
    ref = R.assemble(params, files)
    case = Case(isa, R.render_files(files))
    out = acc.run(case)
    spec = expect_spec(ref)
    msg = judge_expect(spec, [out])
    if msg:
        acc.violation([case], spec, msg, [out], finding='F24a' if ';' in text else None)
    acc.judge(clause=clause, nontrivial_key=nontrivial)
    if ctr % 701 == 0:
        acc.sample({'program': case.files['main.asm'], 'reference': spec})
    return ref, out, msg


def judge(spec, outcomes):
    return judge_expect(spec, outcomes)
