"""C02 - address assignment and label values are consistent across both passes.

History exploration over a line alphabet (labels, instructions of three sizes, data, fills,
origins, alignments, zone switches, muting, an excluded block, forward and backward references);
the reference layout of mc/refasm.py predicts every byte of the image.
"""
from mc import refasm as R
from mc.histories import histories, run_program
from mc.probe_isa import probe_isa

ID = 'C02'
LEVEL = 'model_checking'

ZONES = [{'name': 'zz', 'start': 0x20, 'end': 0x2F}]
CONFIGS = [
    ('o0-p1-le-16', R.Params(address_size=16, endian='little', origin=0, page_size=1, zones=ZONES)),
    # ... with two predefined data blocks above the code: they stay where the definition puts them and their names are labels
    ('o3-p6-be-16-data', R.Params(address_size=16, endian='big', origin=3, page_size=6, zones=ZONES,
                                  data=[{'name': 'blk', 'address': 0x60, 'value': 0xA5, 'size': 2}, {'name': 'blk2', 'address': 0x70, 'value': 0x5A, 'size': 1}])),
    # a redefined GLOBAL zone that starts below the default origin: the first line still sits at the origin
    ('o16-p4-le-8-global8', R.Params(address_size=8, endian='little', origin=0x10, page_size=4,
                                     zones=ZONES + [{'name': 'GLOBAL', 'start': 8, 'end': 0xFF}])),
]

SIGMA = [
    ('label', 'G0'), ('label', 'G1'), ('label', '_f0'), ('const', 'Z0', 0),
    ('nop',), ('ldi', 'a', ('lab', 'K0')), ('m2', 5, ('lab', 'K0')),       # m2: a macro of two 12-bit steps (4 bytes)
    ('jmp', ('lab', 'G0')), ('jmp', ('lab+', 'G1', 1)), ('brr', ('lab', 'G0')), ('brr', ('lab', 'G1')),
    ('data', 1, [('lab', 'G1')]), ('data', 2, [('lab', 'G0'), ('lab+', '_f0', 2)]),
    ('rawbytes', '    "Hi"', [0x48, 0x69, 0]),          # an embedded string (3 bytes with its terminator): a line of the current zone
    ('fill', 3, 0x55), ('fill', 0, 1), ('zero', 2), ('zerountil', 9), ('zerountil', ('lab', 'K1')),
    ('org', 5, None), ('org', 0x10, None), ('org', 2, 'zz'),
    ('align', 4), ('align', None), ('align', 10),
    ('memzone', 'zz'), ('memzone', 'GLOBAL'),
    ('mute',), ('unmute',),
    ('excluded',),
]
CORE = [s for s in SIGMA if s not in (('label', '_f0'), ('brr', ('lab', 'G1')), ('fill', 0, 1), ('zerountil', ('lab', 'K1')),
                                      ('org', 2, 'zz'), ('memzone', 'GLOBAL'), ('unmute',))]


# the deepest level of the thorough tier runs over 14 of the symbols (one of each kind of line)
CORE_DEEP = [s for s in CORE if s in (('label', 'G0'), ('label', 'G1'), ('const', 'Z0', 0), ('nop',), ('m2', 5, ('lab', 'K0')), ('jmp', ('lab', 'G0')),
                                      ('brr', ('lab', 'G0')), ('data', 2, [('lab', 'G0'), ('lab+', '_f0', 2)]), ('fill', 3, 0x55), ('zerountil', 9),
                                      ('org', 0x10, None), ('align', 4), ('memzone', 'zz'), ('mute',))]


def isa_of(p):
    return probe_isa(p.address_size, p.endian, origin=p.origin or None, page_size=p.page_size if p.page_size != 1 else None,
                     zones=p.zones, embedded_strings=True, data=p.data or None)


def meta(tier):
    q = tier == 'quick'
    return {
        'rule': 'labels in the arguments of .zerountil / .fill / .org (each as a label expression or the literal it equals: 8 combinations x 3 sizes x 2 ends x 2 byte orders, expected image computed here); every history over the line alphabet up to the depth bound under 3 configurations (default origin x page size x '
                'endianness x address width); each history is completed with constants K0/K1, definitions for labels that were '
                'referenced but not defined (so references are forward as well as backward) and a suffix that emits every '
                'label value; the whole image from address 0 must equal the reference layout; non-trivial = history with a '
                'label reference and an address-moving line (origin/align/zone/fill); plus every history up to depth 4 (thorough 5) over a 12-symbol multi-file alphabet (labels, references, origins, zone switches, alignment, and includes of a plain file, of a file that switches zone, of a file with its own origin), with every label of every file read out at the end; plus a 64-bit address space with origins at and above 2^53 x 5 alignments x 0..7 bytes before the alignment; programs that fill an 8- / 16-bit address space to its last byte and define a label there (value 2^n, referenced before and after); quoted strings under .2byte / .4byte / .8byte between labels, both byte orders; states = distinct reference states',
        'bounds': {'alphabet': [R.render_stmt(s) if s[0] != 'excluded' else '#if 0 / .byte 1,2,3 / G9: / #endif' for s in SIGMA],
                   'depth_full': 3 if q else 4, 'depth_core': '4 (23 symbols)' if q else '5 (14 symbols)', 'configs': [c[0] for c in CONFIGS]},
        'assumptions': [
            'a label immediately followed by an origin / alignment / zone directive is not judged when referenced (the statement '
            'does not say which of the two addresses "the next line" has)',
            'muted lines occupy addresses', 'constants defined from address labels are not generated',
        ],
        'floors': {'evaluations': 1000, 'nontrivial': 100, 'statuses': ['OK', 'REJECT'], 'clauses': ['accepted', 'multi-file', 'wide-address', 'top-of-memory', 'wide-string', 'label-in-directive']},
        'nshards': 64,
    }


def build(hist, blocks=()):
    stmts = [('const', 'K0', 7), ('const', 'K1', ('lab+', 'K0', 5))]       # K1 = K0+5: a constant defined by an expression
    defined = set()
    referenced = set()
    for s in hist:
        if s[0] == 'excluded':
            stmts += [('if', ('num', 0)), ('data', 1, [1, 2, 3]), ('label', 'G9'), ('endif',)]
            continue
        stmts.append(s)
        if s[0] in ('label', 'const'):
            defined.add(s[1])
        for part in s[1:]:
            for v in (part if isinstance(part, list) else [part]):
                if isinstance(v, tuple) and v and v[0] in ('lab', 'lab+') and v[1] not in ('K0', 'K1'):
                    referenced.add(v[1])
    # closers: forward definitions for everything referenced but not yet defined, then the read-out
    tail = []
    for name in ('G0', 'G1', '_f0'):
        if name not in defined:
            tail += [('label', name), ('nop',)]
    if 'Z0' not in defined:
        tail += [('const', 'Z0', 0)]        # a constant whose value is 0, defined where the address is (mostly) not 0
    stmts += tail
    stmts += [('unmute',), ('unmute',), ('unmute',), ('unmute',), ('unmute',),
              ('data', 2, [('lab', 'G0'), ('lab', 'G1'), ('lab', '_f0'), ('lab', 'Z0')] + [('lab', b) for b in blocks]), ('data', 1, [0xEE])]
    return stmts


def moving(hist):
    return any(s[0] in ('org', 'align', 'memzone', 'fill', 'zero', 'zerountil', 'm2', 'rawbytes') for s in hist) and \
        any(s[0] in ('jmp', 'brr', 'data') for s in hist)


def shard(acc, tier, idx, n):
    q = tier == 'quick'
    d_full = 3 if q else 4
    d_core = 4 if q else 5
    for ci, (cname, params) in enumerate(CONFIGS):
        isa = isa_of(params)

        blocks = tuple(d['name'] for d in params.data)

        def ok(h):
            return R.assemble(params, {'main.asm': build(h, blocks)}).status != 'REJECT'

        seen = set()
        core = CORE if q else CORE_DEEP
        for alphabet, depth in ((SIGMA, d_full), (core, d_core)):
            if alphabet is core and ci != 0:
                continue            # the deepest level only under the first configuration
            for h in histories(alphabet, depth, idx, n, prefix_ok=ok):
                if alphabet is core and len(h) <= d_full:
                    continue        # already executed by the full-alphabet pass
                files = {'main.asm': build(h, blocks)}
                ref, out, msg = run_program(acc, params, isa, files, nontrivial=((ci, h) if moving(h) else None),
                                            sample=(len(h) == depth))
                acc.state((ci, ref.state_key) if ref.status != 'REJECT' else (ci, 'REJECT'))
    multi_file(acc, idx, n, q)
    wide_addresses(acc, idx, n)
    top_of_memory(acc, idx, n)
    wide_strings(acc, idx, n)
    labels_in_directives(acc, idx, n)


def labels_in_directives(acc, idx, n):
    """An address label has its value wherever it is referenced - also in the argument of a later directive that lays memory out (an
    origin, a fill count, the end of a zero stretch, in each of them as a label expression or as the literal it equals): the layout,
    and so every later label, is the same either way."""
    import itertools
    from mc.judges import judge_expect
    from mc.world import Case
    ctr = 0
    for mask, k, o, endian in itertools.product(range(8), (1, 2, 4), (3, 7), ('little', 'big')):
        ctr += 1
        if ctr % n != idx:
            continue
        buf = 1
        after = buf + k
        zend = buf + o
        t = max(after, zend + 1)
        orgv = buf + 0x20
        e = orgv
        mem = {0: 0xEA}
        for a in range(buf, t):
            mem[a] = 0
        for a in range(t, t + k):
            mem[a] = 0xEE
        mem[e] = 0xEA
        a = e + 1
        for v in (t, e, after, e + 9):
            b = [v & 0xFF, v >> 8]
            for x in (b if endian == 'little' else b[::-1]):
                mem[a] = x
                a += 1
        image = bytes(mem.get(x, 0) for x in range(a))
        lines = ['start: nop', f'buf: .zero {k}', 'after:',
                 f'    .zerountil {"buf + " + str(o) if mask & 1 else zend}',
                 f't: .fill {"after - buf" if mask & 2 else k}, $EE',
                 f'    .org {"buf + $20" if mask & 4 else orgv}',
                 'e: nop', '    .2byte t, e, after, last', 'last:']
        case = Case(probe_isa(16, endian), '\n'.join(lines) + '\n')
        out = acc.run(case)
        acc.transition()
        spec = {'expect': 'OK', 'image_hex': image.hex(), 'why': 'labels in directive arguments stand for their addresses'}
        msg = judge_expect(spec, [out])
        if msg:
            acc.violation([case], spec, f'labels in directive arguments (mask {mask}, k={k}, o={o}, {endian}): {msg}', [out])
        acc.judge(clause='label-in-directive', nontrivial_key=('lid', mask, k, o, endian) if mask else None)
        acc.state(('lid', mask, k, o))


MULTI = [('label', 'G0'), ('nop',), ('jmp', ('lab', 'G0')), ('data', 2, [('lab', 'G1')]), ('org', 2, 'zz'), ('memzone', 'zz'), ('memzone', 'GLOBAL'),
         ('align', 4), ('org', 0x10, None), ('inc', 'plain'), ('inc', 'zoned'), ('inc', 'origin')]


def build_multi(hist):
    """Programs spread over several files: an included file is laid out in GLOBAL whatever zone its #include line sits in, and the
    includer carries on in its own zone afterwards; every label defined in an included file is read out at the end."""
    files = {}
    stmts = [('const', 'K0', 7)]
    defined = set()
    inner = []
    for i, s in enumerate(hist):
        if s[0] == 'inc':
            name = f'f{i}.asm'
            lab = f'I{i}'
            body = {'plain': [('nop',), ('label', lab), ('data', 1, [0xA0 + i])],
                    'zoned': [('label', lab), ('memzone', 'zz'), ('data', 1, [0xB0 + i]), ('label', lab + 'z'), ('nop',)],
                    'origin': [('org', 0x18, None), ('label', lab), ('ldi', 'a', ('lab', 'K0'))]}[s[1]]
            files[name] = body
            inner += [lab] + ([lab + 'z'] if s[1] == 'zoned' else [])
            stmts.append(('include', name))
            continue
        stmts.append(s)
        if s[0] == 'label':
            defined.add(s[1])
    for name in ('G0', 'G1'):
        if name not in defined:
            stmts += [('label', name), ('nop',)]
    stmts += [('data', 2, [('lab', 'G0'), ('lab', 'G1')] + [('lab', x) for x in inner]), ('data', 1, [0xEE])]
    files['main.asm'] = stmts
    return files


def multi_file(acc, idx, n, q):
    params = CONFIGS[0][1]
    isa = isa_of(params)
    depth = 4 if q else 5

    def ok(h):
        return R.assemble(params, build_multi(h)).status != 'REJECT'

    for h in histories(MULTI, depth, idx, n, prefix_ok=ok):
        if not any(s[0] == 'inc' for s in h):
            continue
        files = build_multi(h)
        ref, out, msg = run_program(acc, params, isa, files, clause='multi-file',
                                    nontrivial=(('multi', h) if any(s[0] in ('org', 'memzone', 'align') for s in h) else None),
                                    sample=(len(h) == depth and h[0][0] == 'memzone' and h[-1][0] == 'inc'))
        acc.state(('multi', ref.state_key) if ref.status != 'REJECT' else ('multi', 'REJECT'))


def wide_addresses(acc, idx, n):
    """Alignment and label values where addresses no longer fit a double: 64-bit address space, origins at and above 2^53."""
    import itertools
    params = R.Params(address_size=64, endian='little', origin=0, page_size=1)
    isa = probe_isa(64, 'little')
    ctr = 0
    for base, k, pre in itertools.product((1 << 53, (1 << 53) + 1, 0xFFFF800000000000, (1 << 60) + 5, (1 << 63) + 0x1001, 0x20000000000008),
                                          (2, 8, 16, 24, 10), (0, 1, 3, 7)):
        ctr += 1
        if ctr % n != idx:
            continue
        stmts = [('org', base, None)] + ([('data', 1, list(range(1, pre + 1)))] if pre else []) + \
                [('align', k), ('label', 'W0'), ('data', 1, [0xEE]), ('data', 8, [('lab', 'W0')])]
        files = {'main.asm': stmts}
        ref, out, msg = run_program(acc, params, isa, files, start=base, end=base + 63, clause='wide-address',
                                    nontrivial=('wide', base, k, pre), sample=(pre == 3 and k == 16))
        acc.state(('wide', base, k, pre))


def top_of_memory(acc, idx, n):
    """A program that fills its address space to the last byte: the label that follows has the value 2^address_size (one past the top),
    wherever it is referenced; a byte placed there is rejected."""
    import itertools
    ctr = 0
    for bits, k, filler, tail in itertools.product((8, 16), (1, 2, 6), ('bytes', 'zerountil', 'fill'), ('label', 'label+nop', 'two-labels')):
        ctr += 1
        if ctr % n != idx:
            continue
        top = (1 << bits) - 1
        params = R.Params(address_size=bits, endian='little', origin=0, page_size=1)
        isa = probe_isa(bits, 'little')
        fill = {'bytes': [('data', 1, list(range(1, k + 1)))], 'zerountil': [('zerountil', top)], 'fill': [('fill', k, 0x5A)]}[filler]
        stmts = [('data', 2, [('lab', 'TOPEND')]), ('data', 2, [('lab+', 'TOPEND', -3)]), ('label', 'G0'), ('nop',),
                 ('org', top - k + 1, None)] + fill + [('label', 'TOPEND')]
        if tail == 'label+nop':
            stmts.append(('nop',))
        elif tail == 'two-labels':
            stmts.append(('label', 'TOPEND2'))
            stmts[1] = ('data', 2, [('lab', 'TOPEND2')])
        files = {'main.asm': stmts}
        ref, out, msg = run_program(acc, params, isa, files, clause='top-of-memory', nontrivial=('top', bits, k, filler, tail),
                                    sample=(k == 2 and filler == 'bytes'))
        acc.state(('top', bits, k, filler, tail))


def wide_strings(acc, idx, n):
    """A quoted string under .2byte / .4byte / .8byte emits each character in the width of the directive: the space reserved for the
    line is the space it fills, so the labels around it and the lines after it are where the layout says."""
    import itertools
    ctr = 0
    for endian, (d1, w1, t1), (d2, w2, t2) in itertools.product(('little', 'big'), (('.2byte', 2, 'AB'), ('.4byte', 4, 'Z'), ('.byte', 1, 'hi')),
                                                                 (('.2byte', 2, 'q'), ('.8byte', 8, 'xy'), ('.4byte', 4, 'ab'))):
        ctr += 1
        if ctr % n != idx:
            continue

        def wide(text, w):
            out = []
            for ch in text:
                b = [ord(ch)] + [0] * (w - 1)
                out += b if endian == 'little' else b[::-1]
            return out
        params = R.Params(address_size=16, endian=endian, origin=0, page_size=1)
        isa = probe_isa(16, endian)
        stmts = [('data', 2, [('lab', 'W1'), ('lab', 'W2'), ('lab', 'W3')]), ('label', 'W0'),
                 ('rawbytes', f'    {d1} "{t1}"', wide(t1, w1)), ('label', 'W1'), ('nop',),
                 ('rawbytes', f'    {d2} "{t2}"', wide(t2, w2)), ('label', 'W2'), ('data', 1, [0x7E]), ('label', 'W3'), ('data', 1, [0xEE])]
        ref, out, msg = run_program(acc, params, isa, {'main.asm': stmts}, clause='wide-string', nontrivial=('wstr', endian, d1, d2), sample=(ctr % 5 == 0))
        acc.state(('wstr', endian, d1, d2))


def judge(spec, outcomes):
    from mc.judges import judge_expect
    return judge_expect(spec, outcomes)
