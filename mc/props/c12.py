"""C12 - configured operand value constraints are enforced, not silently bypassed.

Product enumeration of constraint configurations x values on and next to every boundary; one
statement per assembly (rejections cannot be batched).  ACCEPT iff every configured constraint
holds - then the bytes must equal the reference encoding - otherwise REJECT.
"""
import itertools

from mc import isagen as G
from mc import refenc
from mc.judges import judge_expect
from mc.world import Case

ID = 'C12'
LEVEL = 'exploration'

WIDTHS = list(range(1, 18)) + [24, 31, 32, 33, 63, 64]
OPCODES = [(1, 1), (5, 3), (0xA, 4), (0xC3, 8)]


def meta(tier):
    q = tier == 'quick'
    return {
        'rule': '(i) field range: width in 1..17,24,31,32,33,63,64 x byte_align x endianness x opcode width in {1,3,4,8} x operand kind '
                '(numeric argument, indirect-register offset, index of an indexed register, numeric_bytecode code) x values '
                '{0,1,2^(w-1)-1,2^(w-1),2^w-1,2^w,-1,-2^(w-1),-2^(w-1)-1}; (ii) numeric_bytecode min/max grid x values min-1..max+1; '
                '(iii) numeric enumerations: every key set within {0..4} x values -1..6 (as a literal, as constant+offset, behind * / << operators), as a code enumeration, an argument enumeration, and both at once with different key sets; (iv) address operands / valid_address numerics '
                'against zones on a grid (incl. redefined GLOBAL, named memory_zone) x values s-1,s,e,e+1, written as a number, as a constant and as a constant in parentheses; (v) sliced addresses: slice '
                'width {4,8,12} x instruction address on both sides of a page boundary x targets in the same / neighbouring pages; (v-b) slice_lsb without match_address_msb: targets inside / beyond the field width from instruction addresses in several pages; '
                '(vi) relative addresses: (min,max) grid incl. one-sided and absent bounds x offset_from_instruction_end x instruction size {2,3,4} x address x every '
                'offset min-1..max+1; non-trivial = value on or adjacent to a boundary (all of them are); distinct by construction',
        'bounds': {'widths': WIDTHS, 'opcodes': OPCODES},
        'assumptions': ['"fits its field" = -2^(w-1) <= v <= 2^w-1 (signed-or-unsigned), as the statement says',
                        'relative-address targets are kept inside GLOBAL (the statement does not list a zone constraint for them)',
                        'reference encoding: mc/refenc.py'],
        'floors': {'evaluations': 1000, 'nontrivial': 1000, 'statuses': ['OK', 'REJECT'],
                   'clauses': ['range', 'minmax', 'enumeration', 'zone', 'slice', 'slice-only', 'relative', 'relative-in-macro', 'range/in-a-row', 'minmax/in-a-row', 'enumeration/in-a-row']},
        'nshards': 64, 'xcheck': 16,
    }


def one(acc, isa, text, expect_bytes, clause, addr=0x200, consts=(), yaml=False, why=''):
    src = '\n'.join([f'{k} = {v}' for k, v in consts] + [f'.org {addr}', '    ' + text]) + '\n'
    case = Case(isa, src, start=addr, isa_yaml=yaml)
    out = acc.run(case)
    if expect_bytes is None:
        spec = {'expect': 'REJECT', 'why': why, 'statement': text}
    else:
        spec = {'expect': 'OK', 'image_hex': bytes(expect_bytes).hex(), 'statement': text}
    msg = judge_expect(spec, [out])
    if msg:
        acc.violation([case], spec, f'{text!r}: {msg}', [out])
    acc.judge(clause=clause, nontrivial_distinct=True)
    if expect_bytes is None:
        # a constraint is enforced whatever outputs are requested: the same statement with --no-binary and a pretty print only
        _NB[0] += 1
        fmt = ('listing', 'hex', None, 'intel_hex', 'minhex', None)[_NB[0] % 6]          # None: --no-binary alone, nothing is written at all
        case2 = Case(isa, src, start=addr, isa_yaml=yaml, binary=False, pretty=fmt)
        out2 = acc.run(case2)
        spec2 = dict(spec, mode=f'--no-binary -p -t {fmt}' if fmt else '--no-binary')
        msg2 = judge_expect(spec2, [out2])
        if msg2:
            acc.violation([case2], spec2, f'{text!r} [{spec2["mode"]}]: {msg2}', [out2])
        acc.judge(clause=clause + '/no-binary', nontrivial_distinct=True)
    return out


_NB = [0]


def batch(acc, isa, items, clause, yaml=False, consts=()):
    """The same statements once more, together in one program: all the accepted ones in a row (image = their codes in a row), and
    that row followed by each rejected statement in turn (must be rejected): a constraint is enforced on every statement, whatever
    was assembled before it."""
    good = [(t, e) for t, e, _ in items if e is not None]
    bad = [(t, w) for t, e, w in items if e is None]
    head = [f'{k} = {v}' for k, v in consts] + ['.org 512']
    if len(good) > 1:
        src = '\n'.join(head + ['    ' + t for t, _ in good]) + '\n'
        case = Case(isa, src, start=0x200, isa_yaml=yaml)
        out = acc.run(case)
        spec = {'expect': 'OK', 'image_hex': b''.join(bytes(e) for _, e in good).hex(), 'statement': 'all accepted statements in a row'}
        msg = judge_expect(spec, [out])
        if msg:
            acc.violation([case], spec, f'accepted statements in a row: {msg}', [out])
        acc.judge(clause=clause + '/in-a-row', nontrivial_distinct=True)
    if good:
        for t, why in bad:
            src = '\n'.join(head + ['    ' + g for g, _ in good] + ['    ' + t]) + '\n'
            case = Case(isa, src, start=0x200, isa_yaml=yaml)
            out = acc.run(case)
            spec = {'expect': 'REJECT', 'why': why, 'statement': f'{t} after {len(good)} accepted statements'}
            msg = judge_expect(spec, [out])
            if msg:
                acc.violation([case], spec, f'{t!r} after the accepted statements: {msg}', [out])
            acc.judge(clause=clause + '/in-a-row', nontrivial_distinct=True)


def boundary_values(w):
    return [0, 1, (1 << (w - 1)) - 1, 1 << (w - 1), (1 << w) - 1, 1 << w, -1, -(1 << (w - 1)), -(1 << (w - 1)) - 1, (1 << w) + 1]


def shard(acc, tier, idx, n):
    q = tier == 'quick'
    ctr = 0
    # ---- (i) field range ---------------------------------------------------------------------------------
    for w in WIDTHS:
        for align in (False, True):
            for e in ('big', 'little'):
                for op in OPCODES:
                    ctr += 1
                    if ctr % n != idx:
                        continue
                    kinds = [
                        ('num', G.shape_numeric(w, align, e), '{}'),
                        ('off', G.shape_indirect_register('sp', (5, 3), 'suffix', offset=w, align=align, endian=e), '[sp+{}]'),
                        ('idx', G.shape_indexed('x', (3, 2), w, 'suffix', align=align, endian=e), 'x+{}'),
                    ]
                    if w <= 16 and not align and e == 'big':
                        kinds.append(('nbc', G.shape_numeric_bytecode(w), '{}'))
                    for kname, sh, fmt in kinds:
                        ins = G.InstrSpec('tst', (op[0], op[1]), None, None, [sh])
                        isa = G.build_isa([ins], 'big')
                        items = []
                        for v in boundary_values(w):
                            if kname == 'nbc' and v < 0:
                                continue        # min is 0 for this operand: covered in (ii)
                            if kname == 'idx' and v < 0:
                                continue        # an index is written reg+expr; a negative one is outside the operand grammar
                            if kname == 'off' and v < 0:
                                text = f'tst [sp-{-v}]'
                            else:
                                text = 'tst ' + fmt.format(G.lit(v))
                            ok = refenc.fits(v, w)
                            exp = None
                            if ok:
                                if kname == 'nbc':
                                    inst = (G.lit(v), (v, w), None)
                                elif kname == 'num':
                                    inst = (G.lit(v), None, (v, w))
                                elif kname == 'off':
                                    inst = ('x', (5, 3), (v, w))
                                else:
                                    inst = ('x', (3, 2), (v, w))
                                ordered, isize, _ = ins.fields('big', (inst,), 0x200)
                                exp = refenc.encode(ordered)
                            one(acc, isa, text, exp, 'range', why=f'{v} does not fit {w} bits')
                            items.append((text, exp, f'{v} does not fit {w} bits'))
                        batch(acc, isa, items, 'range')
    # ---- (ii) numeric_bytecode min / max --------------------------------------------------------------------
    for w in (2, 3, 5, 8):
        top = (1 << w) - 1
        for lo, hi in itertools.product((0, 1, top - 1), (1, 2, top - 1, top, top + 2)):
            if hi < lo:
                continue
            ctr += 1
            if ctr % n != idx:
                continue
            sh = G.shape_numeric_bytecode(w)
            cfg0 = sh['cfg']

            def cfg(de, lo=lo, hi=hi, cfg0=cfg0):
                c = cfg0(de)
                c['bytecode']['min'] = lo
                c['bytecode']['max'] = hi
                return c
            sh = dict(sh, cfg=cfg)
            ins = G.InstrSpec('tst', (0xA, 4), None, None, [sh])
            isa = G.build_isa([ins], 'big')
            items = []
            for v in sorted({lo - 1, lo, lo + 1, hi - 1, hi, hi + 1, top, top + 1, 0, -1}):
                ok = lo <= v <= hi and refenc.fits(v, w)
                exp = None
                if ok:
                    ordered, _, _ = ins.fields('big', ((G.lit(v), (v, w), None),), 0x200)
                    exp = refenc.encode(ordered)
                one(acc, isa, 'tst ' + G.lit(v), exp, 'minmax', why=f'{v} outside {lo}..{hi} or {w} bits')
                items.append(('tst ' + G.lit(v), exp, f'{v} outside {lo}..{hi} or {w} bits'))
            batch(acc, isa, items, 'minmax')
    # ---- (ii-b) a numeric_bytecode index inside an indexed register: the index has its own field inside the composite code ---------
    for w, indirect in itertools.product((3, 4), (False, True)):
        half, top = 1 << (w - 1), (1 << w) - 1
        for lo, hi in ((-(1 << w), 1 << w), (-half, top), (-half - 1, top + 1), (0, top)):
            ctr += 1
            if ctr % n != idx:
                continue
            typ = 'indirect_indexed_register' if indirect else 'indexed_register'
            isa = {'general': {'address_size': 16, 'endian': 'big', 'registers': ['a', 'x'], 'min_version': '0.3.0'},
                   'operand_sets': {'ix': {'operand_values': {'xi': {
                       'type': typ, 'register': 'x', 'bytecode': {'value': 2, 'size': 2},
                       'index_operands': {'nb': {'type': 'numeric_bytecode', 'bytecode': {'size': w, 'min': lo, 'max': hi}}}}}}},
                   'instructions': {'tst': {'bytecode': {'value': 0xA, 'size': 4}, 'operands': {'count': 1, 'operand_sets': {'list': ['ix']}}}}}
            for v in range(lo - 1, hi + 2):
                ok = lo <= v <= hi and refenc.fits(v, w)
                exp = refenc.encode([(0xA, 4, False, 'big'), ((2 << w) | (v % (1 << w)), 2 + w, False, 'big')]) if ok else None
                text = ('tst [x + KV]' if indirect else 'tst x + KV')
                one(acc, isa, text, exp, 'minmax', consts=(('KV', v),), why=f'index {v} outside {lo}..{hi} or {w} bits')
    # ---- (iii) numeric enumerations ---------------------------------------------------------------------------
    for r in range(1, 4):
        for keys in itertools.combinations(range(5), r):
            ctr += 1
            if ctr % n != idx:
                continue
            table = {k: (k * 3 + 1) % 8 for k in keys}
            # 'both': a code enumeration and an argument enumeration with a different key set and different values: a value has to be in each
            table2 = {k: 0x40 + 5 * k for k in list(keys)[:-1] + [max(keys) + 1]}
            for where in ('code', 'arg', 'both'):
                cfgd = {'type': 'numeric_enumeration'}
                if where in ('code', 'both'):
                    cfgd['bytecode'] = {'size': 3, 'value_dict': dict(table)}
                if where == 'arg':
                    cfgd['argument'] = {'size': 8, 'byte_align': True, 'value_dict': dict(table)}
                if where == 'both':
                    cfgd['argument'] = {'size': 8, 'byte_align': True, 'value_dict': dict(table2)}
                sh = {'kind': 'numeric_enumeration', 'cfg': (lambda de, c=cfgd: c), 'pos': 'suffix', 'align': True, 'endian': None,
                      'insts': [], 'needs': {'yaml'}}
                ins = G.InstrSpec('tst', (0xA, 4), None, None, [sh])
                isa = G.build_isa([ins], 'big')
                items = []
                for v in range(-1, 7):
                    exp = None
                    if v in table and (where != 'both' or v in table2):
                        inst = (str(v), (table[v], 3), None) if where == 'code' else (str(v), None, (table[v], 8)) if where == 'arg' \
                            else (str(v), (table[v], 3), (table2[v], 8))
                        ordered, _, _ = ins.fields('big', (inst,), 0x200)
                        exp = refenc.encode(ordered)
                    one(acc, isa, 'tst ' + G.lit(v), exp, 'enumeration', yaml=True, why=f'{v} not a key of {sorted(table)}')
                    one(acc, isa, f'tst KQ+{v + 1}', exp, 'enumeration', yaml=True, consts=[('KQ', -1)], why=f'{v} not a key')
                    # the value decides, not the spelling: the same value behind operators of every precedence
                    one(acc, isa, f'tst ({v}+4)*2/2-4', exp, 'enumeration', yaml=True, why=f'{v} not a key')
                    one(acc, isa, f'tst {v + 8}*4/4 - (1<<3)', exp, 'enumeration', yaml=True, why=f'{v} not a key')
                    items.append(('tst ' + G.lit(v), exp, f'{v} not a key of {sorted(table)}'))
                    items.append((f'tst KQ+{v + 1}', exp, f'{v} not a key'))
                batch(acc, isa, items, 'enumeration', yaml=True, consts=[('KQ', -1)])
    # ---- (iv) zones -----------------------------------------------------------------------------------------------
    grids = [(None, (0x10, 0x1F)), ((0x08, 0x7F), (0x10, 0x1F)), ((0x08, 0x7F), (0x08, 0x0F)), (None, (0, 0)), ((0x20, 0xFF), (0xF0, 0xFF))]
    for g, z in grids:
        for kind in ('address-global', 'address-zone', 'valid-numeric', 'valid-indirect', 'valid-deferred', 'plain-numeric'):
            ctr += 1
            if ctr % n != idx:
                continue
            zones = [{'name': 'zq', 'start': z[0], 'end': z[1]}]
            if g:
                zones.append({'name': 'GLOBAL', 'start': g[0], 'end': g[1]})
            glo, ghi = g if g else (0, 0xFFFF)
            if kind == 'address-global':
                cfgd = {'type': 'address', 'argument': {'size': 16, 'byte_align': True}}
                lo, hi = glo, ghi
            elif kind == 'address-zone':
                cfgd = {'type': 'address', 'argument': {'size': 16, 'byte_align': True, 'memory_zone': 'zq'}}
                lo, hi = z
            elif kind in ('valid-numeric', 'valid-indirect', 'valid-deferred'):
                # the valid_address flag binds numeric, indirect ([expr]) and deferred ([[expr]]) operands alike
                typ = {'valid-numeric': 'numeric', 'valid-indirect': 'indirect_numeric', 'valid-deferred': 'deferred_numeric'}[kind]
                cfgd = {'type': typ, 'argument': {'size': 16, 'byte_align': True, 'valid_address': True}}
                lo, hi = glo, ghi
            else:
                cfgd = {'type': 'numeric', 'argument': {'size': 16, 'byte_align': True}}
                lo, hi = -(1 << 15), 0xFFFF
            sh = {'kind': 'x', 'cfg': (lambda de, c=cfgd: c), 'pos': 'suffix', 'align': True, 'endian': None, 'insts': [], 'needs': set()}
            ins = G.InstrSpec('tst', (0xC3, 8), None, None, [sh])
            isa = G.build_isa([ins], 'little', predefined={'memory_zones': zones}, extra_general={'origin': glo} if g else None)
            for v in sorted({lo - 1, lo, lo + 1, hi - 1, hi, hi + 1, z[0] - 1, z[0], z[1], z[1] + 1, glo - 1, glo, ghi, ghi + 1}):
                if v < -(1 << 15) or v > 0xFFFF + 1:
                    continue
                ok = lo <= v <= hi and refenc.fits(v, 16)
                exp = None
                if ok:
                    ordered, _, _ = ins.fields('little', ((str(v), None, (v, 16)),), glo + 4)
                    exp = refenc.encode(ordered)
                wrap = {'valid-indirect': '[{}]', 'valid-deferred': '[[{}]]'}.get(kind, '{}')
                one(acc, isa, 'tst ' + wrap.format(G.lit(v)), exp, 'zone', addr=max(glo, 0) + 4, why=f'{v} outside {lo}..{hi}')
                # the same value written as a constant (a bare symbol, and the symbol in parentheses): a name is checked like a number
                if v >= 0:
                    one(acc, isa, 'tst ' + wrap.format('KZV'), exp, 'zone', addr=max(glo, 0) + 4, consts=(('KZV', v),), why=f'KZV = {v} outside {lo}..{hi}')
                    one(acc, isa, 'tst ' + wrap.format('(KZV)'), exp, 'zone', addr=max(glo, 0) + 4, consts=(('KZV', v),), why=f'(KZV) = {v} outside {lo}..{hi}')
    # ---- (v) sliced addresses --------------------------------------------------------------------------------------
    for w in (4, 8, 12):
        page = 1 << w
        for align, e in ((w == 8, 'big'), (False, 'little')):
            for opw in ((0xA, 4), (0xC3, 8)):
                ctr += 1
                if ctr % n != idx:
                    continue
                sh = G.shape_address(w, align, e, sliced=True)
                ins = G.InstrSpec('tst', opw, None, None, [sh])
                isa = G.build_isa([ins], 'big')
                for addr in (2 * page - 2, 2 * page - 1, 2 * page, 2 * page + 1, 3 * page - 1):
                    base = (addr >> w) << w
                    for target in sorted({base - 1, base, base + 1, base + page - 1, base + page, addr, base - page, base + 2 * page - 1}):
                        if target < 0 or target > 0xFFFF:
                            continue
                        ok = (target >> w) == (addr >> w)
                        exp = None
                        if ok:
                            ordered, _, _ = ins.fields('big', ((str(target), None, (target & (page - 1), w)),), addr)
                            exp = refenc.encode(ordered)
                        one(acc, isa, f'tst {target}', exp, 'slice', addr=addr, why=f'{target:#x} not in the page of {addr:#x}')
    # ---- (v-b) slice_lsb without match_address_msb: nothing vouches for the high bits, so the value has to fit the field ------------
    for w in (4, 8, 12):
        page = 1 << w
        for align, e in ((w == 8, 'big'), (False, 'little')):
            for opw in ((0xA, 4), (0xC3, 8)):
                ctr += 1
                if ctr % n != idx:
                    continue
                sh = dict(G.shape_address(w, align, e, sliced=True))
                sh['cfg'] = (lambda de, w=w, align=align, e=e: {'type': 'address', 'argument': G._argcfg(w, align, e, {'slice_lsb': True})})
                ins = G.InstrSpec('tst', opw, None, None, [sh])
                isa = G.build_isa([ins], 'big')
                for addr in (0, page - 2, 2 * page - 1, 3 * page):
                    for target in sorted({0, 1, page - 1, page, page + 1, 2 * page - 1, 2 * page, 3 * page + 1, 0x1234, 0xFF00 | (page - 1), addr}):
                        if target > 0xFFFF:
                            continue
                        exp = None
                        if target < page:
                            ordered, _, _ = ins.fields('big', ((str(target), None, (target, w)),), addr)
                            exp = refenc.encode(ordered)
                        one(acc, isa, f'tst {target}', exp, 'slice-only', addr=addr, why=f'{target:#x} does not fit {w} bits and no high-bit match is configured')
    # ---- (vi) relative addresses ------------------------------------------------------------------------------------
    # (None: that bound is not configured; the other one still holds)
    for (lo, hi) in ((-128, 127), (-4, 3), (0, 7), (-8, -1), (-1, 1), (-100, 200), (None, 10), (-10, None), (None, -2), (3, None), (None, None)):
        for from_end in (False, True):
            for extra_bytes in (0, 1, 2):
                for w, e in ((8, None), (16, 'little'), (4, None)):
                    if lo is not None and hi is not None and not (refenc.fits(lo, w) or refenc.fits(hi, w)):
                        continue
                    ctr += 1
                    if ctr % n != idx:
                        continue
                    cfgd = {'type': 'relative_address', 'argument': {'size': w, 'byte_align': w % 8 == 0}}
                    if lo is not None:
                        cfgd['argument']['min'] = lo
                    if hi is not None:
                        cfgd['argument']['max'] = hi
                    if e:
                        cfgd['argument']['endian'] = e
                    if from_end:
                        cfgd['offset_from_instruction_end'] = True
                    sh = {'kind': 'relative_address', 'cfg': (lambda de, c=cfgd: c), 'pos': 'suffix', 'align': w % 8 == 0, 'endian': e,
                          'insts': [], 'needs': set()}
                    shapes = [sh] + [G.shape_numeric(8, True, None)] * extra_bytes
                    ins = G.InstrSpec('tst', (0xC3, 8), None, None, shapes)
                    isa = G.build_isa([ins], 'big')
                    pad = [('0', None, (0, 8))] * extra_bytes
                    for addr in (0x200, 0x205, 0x2FF):
                        _, isize, _ = ins.fields('big', tuple([('0', None, (0, w))] + pad), addr)
                        lo_e = lo if lo is not None else -(1 << (w - 1))
                        hi_e = hi if hi is not None else (1 << w) - 1
                        for off in sorted({lo_e - 1, lo_e, lo_e + 1, hi_e - 1, hi_e, hi_e + 1, 0, -(1 << (w - 1)) - 1, -(1 << (w - 1)), (1 << w) - 1, (1 << w)}):
                            target = addr + off + ((isize - 1) if from_end else 0)
                            if target < 0 or target > 0xFFFF:
                                continue
                            ok = (lo is None or lo <= off) and (hi is None or off <= hi) and refenc.fits(off, w)
                            exp = None
                            if ok:
                                ordered, _, _ = ins.fields('big', tuple([(str(target), None, (off, w))] + pad), addr)
                                exp = refenc.encode(ordered)
                            text = 'tst ' + ', '.join([str(target)] + ['0'] * extra_bytes)
                            one(acc, isa, text, exp, 'relative', addr=addr,
                                why=f'offset {off} outside {lo}..{hi} / {w} bits (from_end={from_end}, size {isize})')
    macro_relative(acc, idx, n, ctr)


def macro_relative(acc, idx, n, ctr0):
    """(vii) the same min/max boundaries when the constrained instruction is a step of a macro: the offset is measured from
    that step (its address / its last byte), not from the macro."""
    ctr = ctr0
    for (lo, hi) in ((-4, 4), (0, 7), (-8, -1)):
        for from_end in (False, True):
            for steps_before, steps_after in ((1, 0), (0, 1), (2, 1)):
                ctr += 1
                if ctr % n != idx:
                    continue
                relcfg = {'type': 'relative_address', 'argument': {'size': 8, 'byte_align': True, 'min': lo, 'max': hi}}
                if from_end:
                    relcfg['offset_from_instruction_end'] = True
                isa = {'general': {'address_size': 16, 'endian': 'big', 'registers': ['a'], 'min_version': '0.3.0'},
                       'operand_sets': {'rel': {'operand_values': {'r': relcfg}}},
                       'instructions': {'nop': {'bytecode': {'value': 0, 'size': 8}},
                                        'jre': {'bytecode': {'value': 0xEF, 'size': 8}, 'operands': {'count': 1, 'operand_sets': {'list': ['rel']}}}},
                       'macros': {'mjre': [{'operands': {'count': 1, 'operand_sets': {'list': ['rel']}},
                                            'instructions': ['nop'] * steps_before + ['jre @ARG(0)'] + ['nop'] * steps_after}]}}
                for addr in (0x200, 0x2FF):
                    jaddr = addr + steps_before
                    for off in sorted({lo - 1, lo, lo + 1, hi - 1, hi, hi + 1, 0}):
                        target = jaddr + off + (1 if from_end else 0)
                        ok = lo <= off <= hi
                        exp = None
                        if ok:
                            exp = bytes([0] * steps_before + [0xEF, off & 0xFF] + [0] * steps_after)
                        one(acc, isa, f'mjre {target}', exp, 'relative-in-macro', addr=addr,
                            why=f'offset {off} outside {lo}..{hi} (step at {jaddr:#x}, from_end={from_end})')


def judge(spec, outcomes):
    return judge_expect(spec, outcomes)
