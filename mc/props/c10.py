"""C10 - a macro assembles to exactly its expanded instruction sequence.

Differential model checking with two executions of the real assembler per case: a program that
invokes a generated macro, and the same program with the invocation replaced by the macro's steps
after the generator substituted the placeholders on its own structured operands.
"""
import itertools

from mc.judges import judge_expect
from mc.world import Case

ID = 'C10'
LEVEL = 'model_checking'

REGS = ['a', 'b', 'sp']

BASE_ISA = {
    'general': {'address_size': 16, 'endian': 'little', 'registers': REGS, 'min_version': '0.3.0'},
    'operand_sets': {
        'reg': {'operand_values': {
            'ra': {'type': 'register', 'register': 'a', 'bytecode': {'value': 1, 'size': 4}},
            'rb': {'type': 'register', 'register': 'b', 'bytecode': {'value': 2, 'size': 4}}}},
        'imm': {'operand_values': {'i': {'type': 'numeric', 'argument': {'size': 8, 'byte_align': True}}}},
        'imm_u': {'operand_values': {'i': {'type': 'numeric', 'argument': {'size': 8, 'byte_align': False}}}},
        'addr': {'operand_values': {'ad': {'type': 'address', 'argument': {'size': 16, 'byte_align': True}}}},
        'rel': {'operand_values': {'r': {'type': 'relative_address', 'argument': {'size': 8, 'byte_align': True, 'min': -128, 'max': 127}}}},
        'rel_end': {'operand_values': {'r': {'type': 'relative_address', 'offset_from_instruction_end': True,
                                             'argument': {'size': 8, 'byte_align': True, 'min': -128, 'max': 127}}}},
        # a jump target written {expr} is relative, written bare it is absolute: the braces are part of the operand text
        'relc': {'operand_values': {'rc': {'type': 'relative_address', 'use_curly_braces': True, 'bytecode': {'value': 2, 'size': 4},
                                           'argument': {'size': 8, 'byte_align': True, 'min': -128, 'max': 127}}}},
        'target': {'operand_values': {
            'abs': {'type': 'numeric', 'bytecode': {'value': 1, 'size': 4}, 'argument': {'size': 16, 'byte_align': True}},
            'rc': {'type': 'relative_address', 'use_curly_braces': True, 'bytecode': {'value': 2, 'size': 4},
                   'argument': {'size': 8, 'byte_align': True, 'min': -128, 'max': 127}}}},
        # an indirect register with an offset: @ARG is the offset text as written, @REG the register
        'indreg': {'operand_values': {'isp': {'type': 'indirect_register', 'register': 'sp', 'bytecode': {'value': 3, 'size': 4},
                                              'offset': {'size': 8, 'byte_align': True}}}},
        'ind': {'operand_values': {'in': {'type': 'indirect_numeric', 'argument': {'size': 16, 'byte_align': True}}}},
        'enum': {'operand_values': {'e': {'type': 'enumeration', 'bytecode': {'size': 4, 'value_dict': {'foo': 3, 'bar': 5}},
                                          'argument': {'size': 4, 'byte_align': False, 'value_dict': {'foo': 3, 'bar': 5}}}}},
    },
    'instructions': {
        'nop': {'bytecode': {'value': 0xEA, 'size': 8}},
        'ldi': {'bytecode': {'value': 0xA, 'size': 4}, 'operands': {'count': 2, 'operand_sets': {'list': ['reg', 'imm']}}},
        'n12': {'bytecode': {'value': 0x9, 'size': 4}, 'operands': {'count': 1, 'operand_sets': {'list': ['imm_u']}}},
        'brr': {'bytecode': {'value': 0x80, 'size': 8}, 'operands': {'count': 1, 'operand_sets': {'list': ['rel']}}},
        'bre': {'bytecode': {'value': 0x90, 'size': 8}, 'operands': {'count': 1, 'operand_sets': {'list': ['rel_end']}}},
        'jmp': {'bytecode': {'value': 0x4C, 'size': 8}, 'operands': {'count': 1, 'operand_sets': {'list': ['addr']}}},
        'ldm': {'bytecode': {'value': 0x5, 'size': 4}, 'operands': {'count': 1, 'operand_sets': {'list': ['ind']}}},
        'sel': {'bytecode': {'value': 0x6, 'size': 4}, 'operands': {'count': 1, 'operand_sets': {'list': ['enum']}}},
        'push': {'bytecode': {'value': 0x7, 'size': 4}, 'operands': {'count': 1, 'operand_sets': {'list': ['reg']}}},
        'ldo': {'bytecode': {'value': 0xD, 'size': 4}, 'operands': {'count': 1, 'operand_sets': {'list': ['indreg']}}},
        'jt': {'bytecode': {'value': 0xC, 'size': 4}, 'operands': {'count': 1, 'operand_sets': {'list': ['target']}}},
    },
}

# macro operand patterns: name -> (operand set names, invocation operand alternatives per slot)
# an invocation operand: (full text, argument text or None, register name or None)
NUMS = [('5', '5', None), ('start', 'start', None), ('fwd', 'fwd', None), ('fwd+1', 'fwd+1', None),
        ("'@'", "'@'", None),          # the character literal '@': not a placeholder
        ('1+2', '1+2', None)]          # substitution is textual: `@ARG(n)*2` becomes 1+2*2
REGOPS = [('a', None, 'a'), ('b', None, 'b')]
INDS = [('[fwd]', 'fwd', None), ('[ start + 2 ]', 'start + 2', None)]
ENUMS = [('foo', None, None), ('bar', None, None)]
INDREGS = [('[sp + 3]', '3', 'sp'), ('[sp+fwd]', 'fwd', 'sp'), ('[ sp + 1+2 ]', '1+2', 'sp')]
CURLIES = [('{fwd}', 'fwd', None), ('{ start }', 'start', None), ('{fwd+1}', 'fwd+1', None)]
PATTERNS = {
    'ri': (['reg', 'imm'], [REGOPS, NUMS]),
    'i': (['imm'], [NUMS]),
    'r': (['reg'], [REGOPS]),
    'n': (['ind'], [INDS]),
    'e': (['enum'], [ENUMS]),
    'ir': (['imm', 'reg'], [NUMS, REGOPS]),
    'c': (['relc'], [CURLIES]),
    'd': (['indreg'], [INDREGS]),
}
# step templates usable with each pattern; 'BAD' marks templates whose placeholder cannot be filled
TEMPLATES = {
    'ri': ['ldi @REG(0), @ARG(1)', 'ldi @OP(0), @OP(1)', 'n12 @ARG(1)', 'brr @ARG(1)', 'jmp @ARG(1)', 'push @REG(0)', 'push @OP(0)',
           'nop', 'ldm [@ARG(1)]', 'ldi b, @ARG(1)+1', 'bre @ARG(1)', 'ldi b, @ARG(1)*2'],
    'i': ['n12 @ARG(0)', 'brr @OP(0)', 'jmp @ARG(0)', 'ldi a, @ARG(0)', 'ldm [@OP(0)]', 'nop', 'n12 @ARG(0)+@ARG(0)', 'bre @OP(0)', 'n12 2*@ARG(0)'],
    'r': ['push @REG(0)', 'push @OP(0)', 'ldi @REG(0), 7', 'nop', 'n12 9'],
    'n': ['ldm @OP(0)', 'ldm [@ARG(0)]', 'jmp @ARG(0)', 'n12 3', 'brr @ARG(0)'],
    'e': ['sel @OP(0)', 'n12 1', 'nop'],
    'ir': ['ldi @REG(1), @ARG(0)', 'ldi @OP(1), @OP(0)', 'brr @ARG(0)', 'n12 @ARG(0)'],
    'c': ['jt @OP(0)', 'jt {@ARG(0)}', 'jt @ARG(0)', 'brr @ARG(0)', 'nop'],
    'd': ['ldo @OP(0)', 'ldo [@REG(0) + 2*@ARG(0)]', 'n12 2*@ARG(0)', 'ldo [@REG(0)+@ARG(0)]', 'ldi a, 10 - @ARG(0)'],
}
BAD_TEMPLATES = {
    'ri': ['push @REG(1)', 'n12 @ARG(0)', 'n12 @ARG(2)', 'push @OP(2)', 'push @REG(2)'],
    'i': ['push @REG(0)', 'n12 @ARG(1)'],
    'r': ['n12 @ARG(0)', 'push @REG(1)'],
    'e': ['n12 @ARG(1)', 'push @REG(0)'],
}


def substitute(template, operands):
    out = template
    for n, (full, arg, reg) in enumerate(operands):
        if f'@ARG({n})' in out:
            if arg is None:
                return None
            out = out.replace(f'@ARG({n})', arg)
        if f'@REG({n})' in out:
            if reg is None:
                return None
            out = out.replace(f'@REG({n})', reg)
        out = out.replace(f'@OP({n})', full)
    if '@ARG' in out or '@REG' in out or '@OP' in out:
        return None
    return out


def isa_with(macros):
    isa = dict(BASE_ISA)
    isa['macros'] = macros
    return isa


def program(line_or_lines):
    body = line_or_lines if isinstance(line_or_lines, list) else [line_or_lines]
    return '\n'.join(['start:', '    nop'] + ['    ' + l for l in body] +
                     ['after:', '    .2byte after, start, fwd', 'fwd:', '    .byte 238', 'FWD:', '    .byte 237', 'Start:', '    nop']) + '\n'


# several invocations of one macro in one program: every invocation is expanded from its own operand text (labels and character
# literals are case sensitive, whitespace is not significant)
SEQ_OPERANDS = [('fwd', 'FWD'), ('FWD', 'fwd'), ("'A'", "'a'"), ('start', 'Start'), ('5', '5'), ('fwd + 1', 'fwd+1'), ('fwd', 'fwd')]


def sequences(acc, tier, idx, n):
    tpl_sets = [['n12 @ARG(0)'], ['jmp @ARG(0)', 'nop'], ['ldi a, @ARG(0)', 'n12 @OP(0)'], ['ldm [@ARG(0)]']]
    for ctr, (steps, (x1, x2)) in enumerate(itertools.product(tpl_sets, SEQ_OPERANDS)):
        if ctr % n != idx:
            continue
        isa = isa_with({'mac': [{'operands': {'count': 1, 'operand_sets': {'list': ['imm']}}, 'instructions': list(steps)}]})
        ops = [[(x, x, None)] for x in (x1, x2, x1)]
        body = [f'mac {o[0][0]}' for o in ops]
        expanded = [substitute(t, o) for o in ops for t in steps]
        c1, c2 = Case(isa, program(body)), Case(isa, program(expanded))
        o1, o2 = acc.run(c1), acc.run(c2)
        acc.transition(2)
        spec = {'type': 'pair'}
        m = judge_pair(spec, [o1, o2])
        if m:
            acc.violation([c1, c2], spec, f'invocations {body} with steps {steps}: {m}', [o1, o2])
        acc.judge(clause='expansion', nontrivial_key=('seq', tuple(steps), x1, x2))


def meta(tier):
    q = tier == 'quick'
    return {
        'rule': 'macro definitions: 8 operand patterns (incl. an indirect register with an offset, whose argument text is the offset as written, and a relative operand written in braces, forwarded to an instruction that reads a bare operand as absolute) x every sequence of 1..3 (thorough 4) step templates of the pattern\'s catalogue '
                '(12-bit steps, relative-address steps, register / numeric / indirect / enumeration operands, every placeholder kind, '
                'expressions around placeholders), as the only variant and as the second of two variants; invocations: every '
                'combination of operand alternatives (literals, backward and forward labels, label expressions, registers); '
                'oracle: image(program with macro) == image(program with the invocation replaced by the substituted steps), both '
                'assembled by the real code; unfillable placeholders must be rejected (also when a later variant would accept the same operands); macro names defined in lower / upper / mixed case x invocations in lower / upper / defined spelling; non-trivial = macro with >=2 steps or a '
                'forward reference; three invocations of one macro in one program whose operands differ in letter case or spacing only (7 operand pairs x 4 step lists); twin definitions: an instruction and a macro with the same sequence of 1..2 (thorough 3) variant layouts out of 8 '
                '(no operands, an empty operand, operand sets, listed combinations, a listed combination with a trailing empty operand, both) x 7 '
                'operand texts must match the same variant or both be rejected; states = distinct macro definitions',
        'bounds': {'patterns': {k: v[0] for k, v in PATTERNS.items()}, 'templates': TEMPLATES, 'unfillable': BAD_TEMPLATES,
                   'steps': 3 if q else 4},
        'assumptions': ['differential oracle: the expanded program is assembled by the same assembler (its encodings are the subject of C01)',
                        'a label follows the invocation and its value is emitted, so the size of the macro is observed as well'],
        'floors': {'evaluations': 1000, 'nontrivial': 100, 'statuses': ['OK', 'REJECT'], 'clauses': ['expansion', 'unfillable-rejected', 'variant-choice', 'same-matching-rules']},
        'nshards': 64, 'xcheck': 16,
    }


def judge_pair(spec, outs):
    a, b = outs
    if b.status != 'OK':
        return None if spec.get('allow_expanded_reject') and a.status != 'OK' else \
            (f'expanded program rejected ({b.detail}) but macro program {a.status}' if a.status == 'OK' else None)
    if a.status != 'OK':
        return f'macro invocation rejected ({a.detail}) although its expansion assembles to {b.image.hex()}'
    if a.image != b.image:
        return f'macro image {a.image.hex()} != expanded image {b.image.hex()}'
    return None


def shard(acc, tier, idx, n):
    q = tier == 'quick'
    maxsteps = 3 if q else 4
    ctr = 0
    twins(acc, tier, idx, n)
    sequences(acc, tier, idx, n)
    macro_name_case(acc, idx, n)
    for pname, (sets, alts) in PATTERNS.items():
        tpls = TEMPLATES[pname]
        invocations = list(itertools.product(*alts))
        for k in range(1, maxsteps + 1):
            for steps in itertools.product(tpls, repeat=k):
                for second in (False, True, 'zero'):
                    ctr += 1
                    if ctr % n != idx:
                        continue
                    variant = {'operands': {'count': len(sets), 'operand_sets': {'list': sets}}, 'instructions': list(steps)}
                    if second == 'zero':
                        # a first variant that takes no operands: it must not claim an invocation that has operands
                        if k > 1:
                            continue
                        macros = {'mac': [{'instructions': ['nop', 'nop']}, variant]}
                    elif second:
                        # a first variant with a different arity that must be skipped
                        other_sets = ['reg', 'reg', 'reg']
                        first = {'operands': {'count': 3, 'operand_sets': {'list': other_sets}}, 'instructions': ['nop', 'nop', 'nop']}
                        macros = {'mac': [first, variant]}
                    else:
                        macros = {'mac': [variant]}
                    isa = isa_with(macros)
                    acc.state((pname, steps, second))
                    for ops in invocations:
                        inv = 'mac ' + ', '.join(o[0] for o in ops)
                        expanded = [substitute(t, ops) for t in steps]
                        assert all(e is not None for e in expanded)
                        c1 = Case(isa, program(inv))
                        c2 = Case(isa, program(expanded))
                        o1, o2 = acc.run(c1), acc.run(c2)
                        acc.transition(2)
                        spec = {'type': 'pair'}
                        m = judge_pair(spec, [o1, o2])
                        if m:
                            acc.violation([c1, c2], spec, f'{inv!r} with steps {list(steps)}: {m}', [o1, o2])
                        if o2.status != 'OK':
                            acc.dc('expanded program is itself rejected (e.g. offset out of range)')
                            continue
                        fw = any('fwd' in o[0] for o in ops)
                        acc.judge(clause='variant-choice' if second else 'expansion', nontrivial_key=(pname, steps, second, inv) if (k > 1 or fw) else None)
                        if ctr % 97 == 0:
                            acc.sample({'macro': macros, 'invocation': inv, 'expanded': expanded, 'image': o2.image.hex()})
        # unfillable placeholders
        for bad in BAD_TEMPLATES.get(pname, []):
            for pos, later in itertools.product((0, 1), (False, True)):
                ctr += 1
                if ctr % n != idx:
                    continue
                steps = [tpls[0], bad] if pos else [bad, tpls[0]]
                variants = [{'operands': {'count': len(sets), 'operand_sets': {'list': sets}}, 'instructions': steps}]
                if later:
                    # a later variant that would accept the same operands: the variant chosen by operand matching is the first one, and it
                    # cannot be expanded - the invocation is rejected, not handed on
                    variants.append({'operands': {'count': len(sets), 'operand_sets': {'list': sets}}, 'instructions': [tpls[0], 'nop']})
                isa = isa_with({'mac': variants})
                ops = [a[0] for a in alts]
                inv = 'mac ' + ', '.join(o[0] for o in ops)
                case = Case(isa, program(inv))
                out = acc.run(case)
                acc.transition()
                spec = {'expect': 'REJECT', 'why': f'placeholder of step {bad!r} cannot be filled'}
                m = judge_expect(spec, [out])
                if m:
                    acc.violation([case], spec, f'{inv!r} with steps {steps}: {m}', [out])
                acc.judge(clause='unfillable-rejected', nontrivial_key=(pname, bad, pos, later))


def macro_name_case(acc, idx, n):
    """Mnemonics are not case sensitive, those of macros included - however the definition spells the macro's name and however the
    source spells the invocation, the bytes are those of the expansion."""
    ctr = 0
    for defined, written in itertools.product(('mac', 'MAC', 'Mac.w', 'mAc_2'), ('lower', 'upper', 'as defined')):
        for steps, ops in ((['ldi @REG(0), @ARG(1)', 'nop'], (('a', None, 'a'), ('fwd', 'fwd', None))),
                           (['push @OP(0)', 'n12 @ARG(1)+1'], (('b', None, 'b'), ('5', '5', None)))):
            ctr += 1
            if ctr % n != idx:
                continue
            isa = isa_with({defined: [{'operands': {'count': 2, 'operand_sets': {'list': ['reg', 'imm']}}, 'instructions': steps}]})
            name = {'lower': defined.lower(), 'upper': defined.upper(), 'as defined': defined}[written]
            inv = f'{name} ' + ', '.join(o[0] for o in ops)
            expanded = [substitute(t, ops) for t in steps]
            c1, c2 = Case(isa, program(inv)), Case(isa, program(expanded))
            o1, o2 = acc.run(c1), acc.run(c2)
            acc.transition(2)
            spec = {'type': 'pair'}
            m = judge_pair(spec, [o1, o2])
            if m:
                acc.violation([c1, c2], spec, f'macro defined as {defined!r}, invoked as {inv!r}: {m}', [o1, o2])
            acc.judge(clause='expansion', nontrivial_key=('name-case', defined, written, tuple(steps)))


# ---- same matching rules as an instruction: twin definitions -------------------------------------------------------------
_RA = {'type': 'register', 'register': 'a', 'bytecode': {'value': 1, 'size': 4}}
_EM = {'type': 'empty', 'bytecode': {'value': 2, 'size': 4}}
LAYOUTS = {
    'none': None,
    'empty': {'count': 1, 'specific_operands': {'e': {'list': {'em': _EM}}}},
    'reg': {'count': 1, 'operand_sets': {'list': ['reg']}},
    'imm': {'count': 1, 'operand_sets': {'list': ['imm']}},
    'spec_a': {'count': 1, 'specific_operands': {'s': {'list': {'ra': _RA}}}},
    'reg_imm': {'count': 2, 'operand_sets': {'list': ['reg', 'imm']}},
    'spec_a_empty': {'count': 2, 'specific_operands': {'s': {'list': {'ra': _RA, 'em': _EM}}}},
    'reg_or_spec': {'count': 1, 'operand_sets': {'list': ['imm']}, 'specific_operands': {'s': {'list': {'ra': _RA}}}},
}
TWIN_INVOCATIONS = ['', 'a', 'b', '5', 'a, 5', 'a, b', 'A']


def twin_isa(layout_names):
    import copy
    isa = copy.deepcopy(BASE_ISA)
    isa['instructions']['tag'] = {'bytecode': {'value': 0xE0, 'size': 8}, 'operands': {'count': 1, 'operand_sets': {'list': ['imm']}}}
    ivars, mvars = [], []
    for i, ln in enumerate(layout_names):
        ops = copy.deepcopy(LAYOUTS[ln])
        iv = {'bytecode': {'value': 0x10 + i, 'size': 8}}
        mv = {'instructions': [f'tag {i}']}
        if ops is not None:
            iv['operands'] = ops
            mv['operands'] = copy.deepcopy(ops)
        ivars.append(iv)
        mvars.append(mv)
    first = ivars[0]
    if len(ivars) > 1:
        first['variants'] = ivars[1:]
    isa['instructions']['xi'] = first
    isa['macros'] = {'xm': mvars}
    return isa


def judge_twin(spec, outs):
    a, b = outs            # a: the instruction statement, b: the macro statement
    if a.status == 'HANG' or b.status == 'HANG':
        return 'assembly did not terminate'
    if a.status != 'OK' or b.status != 'OK':
        if a.status != b.status:
            return (f'instruction {a.status} ({a.detail if a.status != "OK" else a.image.hex()}) but macro with the same variant layout '
                    f'{b.status} ({b.detail if b.status != "OK" else b.image.hex()})')
        return None
    vi = a.image[0] - 0x10 if a.image else None
    vm = b.image[1] if b.image and len(b.image) >= 2 and b.image[0] == 0xE0 else None
    if vi != vm:
        return f'instruction matched variant {vi} (image {a.image.hex()}) but the macro matched variant {vm} (image {b.image.hex()})'
    return None


def twins(acc, tier, idx, n):
    q = tier == 'quick'
    names = list(LAYOUTS)
    seqs = [(a,) for a in names] + list(itertools.product(names, repeat=2))
    if not q:
        seqs += list(itertools.product(names, repeat=3))
    for ctr, seq in enumerate(seqs):
        if ctr % n != idx:
            continue
        isa = twin_isa(seq)
        acc.state(('twin', seq))
        for inv in TWIN_INVOCATIONS:
            c1 = Case(isa, f'    xi {inv}\n')
            c2 = Case(isa, f'    xm {inv}\n')
            o1, o2 = acc.run(c1), acc.run(c2)
            acc.transition(2)
            spec = {'type': 'twin', 'layouts': list(seq), 'operands': inv}
            m = judge_twin(spec, [o1, o2])
            if m:
                acc.violation([c1, c2], spec, f'variants {list(seq)}, operands {inv!r}: {m}', [o1, o2])
            acc.judge(clause='same-matching-rules', nontrivial_key=('twin', seq, inv) if len(seq) > 1 or 'empty' in ''.join(seq) else None)
        if ctr % 23 == 0:
            acc.sample({'twin_variant_layouts': list(seq), 'invocations': TWIN_INVOCATIONS})


def judge(spec, outcomes):
    if spec.get('type') == 'twin':
        return judge_twin(spec, outcomes)
    if spec.get('type') == 'pair':
        return judge_pair(spec, outcomes)
    return judge_expect(spec, outcomes)
