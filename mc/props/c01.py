"""C01 - instruction encoding is exactly the bit layout the ISA definition prescribes.

Product enumeration of instruction layouts (frames x operand shapes x value instances) packed into
generated ISA definitions; every statement is assembled by the real code (batched, at two base
addresses) and compared with the bit-string reference encoder mc/refenc.py.
"""
import itertools

from mc import isagen as G
from mc import refenc
from mc.world import Case

ID = 'C01'
LEVEL = 'exploration'

OPCODES = [(1, 1), (5, 3), (0xA, 4), (0, 4), (0x15, 5), (0xC3, 8), (0xABC, 12), (0xBEEF, 16)]       # an opcode of value 0 is an opcode
SUFFIXES = [None, (1, 1), (5, 3), (0x3C, 8), (0x1A5, 9), (0xBEE5, 16)]      # suffixes wider than a byte have a byte order
ARG_WIDTHS = [1, 3, 4, 7, 8, 9, 12, 15, 16, 17, 24, 32, 63, 64]
CODE_SIZES = [1, 2, 3, 4, 7, 8]
BASES = [0x200, 0x3FF]


def other(e):
    return 'little' if e == 'big' else 'big'


def frames(tier, part):
    q = tier == 'quick'
    out = []
    for de in ('big', 'little'):
        if part == 'A':
            ops = OPCODES
            sufs = [None, SUFFIXES[2], SUFFIXES[4]] if q else SUFFIXES
        else:
            ops = [OPCODES[0], OPCODES[2], OPCODES[6]] if q else OPCODES
            sufs = [None, SUFFIXES[1]] if q else SUFFIXES
        for op in ops:
            for oe in (None, other(de)):
                for suf in sufs:
                    out.append((de, op, oe, suf))
    return out


def catalogue_full():
    """single-operand shapes covering every operand type and the parameter grid"""
    cat = []
    for w in ARG_WIDTHS:
        for align in (False, True):
            for e in (None, 'big', 'little'):
                cat.append(G.shape_numeric(w, align, e))
    for cs in CODE_SIZES:
        for pos in ('prefix', 'suffix'):
            code = ((1 << cs) - 2 if cs > 1 else 1, cs)
            cat.append(G.shape_register('a', code, pos))
            cat.append(G.shape_numeric(8, True, None, code=code, pos=pos, nvals=3))
            cat.append(G.shape_numeric_bytecode(cs, pos))
            cat.append(G.shape_register('b', (0, cs), pos))                  # a code of value 0 still occupies its bits
            cat.append(G.shape_numeric(8, True, None, code=(0, cs), pos=pos, nvals=2))
    cat.append(G.shape_numeric(8, False, None, wrap='[{}]', typ='indirect_numeric'))
    cat.append(G.shape_numeric(12, True, 'little', wrap='[{}]', typ='indirect_numeric', code=(2, 3)))
    cat.append(G.shape_numeric(16, True, None, wrap='[[{}]]', typ='deferred_numeric', code=(1, 2)))
    cat.append(G.shape_numeric(7, False, 'big', wrap='[[ {} ]]', typ='deferred_numeric'))
    for pos in ('prefix', 'suffix'):
        cat.append(G.shape_indirect_register('sp', (5, 3), pos))
        cat.append(G.shape_indirect_register('sp', (5, 3), pos, offset=8))
        cat.append(G.shape_indirect_register('x', (2, 2), pos, offset=12, align=False, endian='little'))
        # multi-byte offsets / indices in each byte-order configuration: inherited from the definition, stated big, stated little
        for e in (None, 'big', 'little'):
            cat.append(G.shape_indirect_register('sp', (5, 3), pos, offset=16, endian=e))
            cat.append(G.shape_indexed('x', (3, 2), 16, pos, endian=e))
            cat.append(G.shape_indexed('sp', (1, 3), 24, pos, indirect=True, endian=e))
        cat.append(G.shape_indexed('x', (3, 2), 8, pos))
        cat.append(G.shape_indexed('x', (3, 2), 4, pos, align=False, idx_code=(1, 2)))
        cat.append(G.shape_indexed('x', (3, 2), 8, pos, reg_index=('b', 2, 3)))
        cat.append(G.shape_indexed('sp', (1, 3), 16, pos, indirect=True, endian='little'))
        cat.append(G.shape_indexed_nbc('x', (2, 2), 3, pos))
        cat.append(G.shape_indexed_nbc('sp', (5, 3), 6, pos, indirect=True))
        cat.append(G.shape_indexed('sp', (1, 3), 8, pos, indirect=True, reg_index=('a', 1, 1)))
        cat.append(G.shape_enumeration(3, 8, pos))
        cat.append(G.shape_enumeration(0, 4, pos, align=False))
        cat.append(G.shape_enumeration(2, 12, pos, align=True, endian='little'))
    for dec in G.DECORATORS:
        for prefix in (False, True):
            cat.append(G.shape_register('b', (5, 3), 'suffix', decorator=(dec, prefix)))
    cat.append(G.shape_indirect_register('sp', (5, 3), 'suffix', decorator=('plus_plus', False)))
    cat.append(G.shape_indirect_register('sp', (5, 3), 'prefix', offset=8, decorator=('minus_minus', True)))
    cat.append(G.shape_indirect_register('x', (2, 2), 'suffix', offset=8, decorator=('at', False)))
    cat.append(G.shape_indexed('sp', (1, 3), 8, 'suffix', indirect=True, decorator=('plus_plus', False)))
    cat.append(G.shape_indexed('x', (2, 2), 8, 'prefix', indirect=True, decorator=('minus', True), reg_index=('a', 1, 1)))
    for w in (8, 12, 16, 24):
        for e in (None, 'little'):
            cat.append(G.shape_address(w, True, e))
    cat.append(G.shape_address(16, False, 'big'))
    for w in (4, 8, 12):
        cat.append(G.shape_address(w, w == 8, None, sliced=True))
        cat.append(G.shape_address(w, False, 'little', sliced=True))
    for w in (4, 8, 12, 16):
        for fe in (False, True):
            cat.append(G.shape_relative(w, w % 8 == 0, None if w != 16 else 'little', from_end=fe, curly=(w == 12)))
    return cat


def catalogue_yaml():
    cat = []
    for pos in ('prefix', 'suffix'):
        cat.append(G.shape_numeric_enumeration(3, 0, pos))
        cat.append(G.shape_numeric_enumeration(0, 8, pos))
        cat.append(G.shape_numeric_enumeration(2, 12, pos, align=False, endian='little'))
    return cat


def catalogue_small():
    return [
        G.shape_register('a', (1, 1), 'prefix'), G.shape_register('b', (6, 3), 'suffix'), G.shape_register('x', (2, 2), 'prefix'),
        G.shape_numeric(4, False, None, nvals=2), G.shape_numeric(8, True, None, code=(3, 2), pos='prefix', nvals=2),
        G.shape_numeric(12, True, 'little', nvals=2), G.shape_numeric(16, False, None, code=(1, 1), pos='suffix', nvals=2),
        G.shape_indirect_register('sp', (5, 3), 'prefix', offset=8), G.shape_enumeration(3, 4, 'suffix', align=False),
        G.shape_numeric_bytecode(3, 'prefix'), G.shape_address(16, True, None), G.shape_relative(8, True, None, from_end=True),
        G.shape_indexed('x', (3, 2), 8, 'suffix', idx_code=(1, 2)),
    ]


def meta(tier):
    q = tier == 'quick'
    return {
        'rule': 'part Z: zero-operand variants with their own opcode suffix; part S: one operand set used for two positions (and by two statements on one line) x operand texts that differ only in letter case; part V: every sequence of 1..3 statements out of 5 for an instruction with two overlapping variants (each statement encoded by the first accepting variant whatever came before); part A: frames (default endianness x opcode size/value x opcode endianness x opcode suffix) x every single-operand '
                'shape of the full catalogue (every operand type; argument widths 1..64 x byte_align x endianness; code sizes x '
                'prefix/suffix) x every value instance (all values for widths <=4, boundary and pattern values otherwise, negative '
                'values, a constant reference); part B: frames x ordered pairs of the small catalogue x reverse_argument_order x '
                'reverse_bytecode_order x route (operand_sets / specific_operands, the latter also with a trailing empty operand); '
                'part C (thorough): triples. Every statement is assembled at two base addresses (0x200, 0x3FF) so that nothing but '
                'address-relative operands may change; non-trivial = statement whose total width is not a multiple of 8, or that '
                'has >=2 fields besides the opcode, or a non-inherited endianness; distinct by construction',
        'bounds': {'opcodes': OPCODES, 'suffixes': SUFFIXES, 'argument_widths': ARG_WIDTHS, 'code_sizes': CODE_SIZES,
                   'frames_part_A': len(frames(tier, 'A')), 'frames_part_B': len(frames(tier, 'B')),
                   'shapes_full': len(catalogue_full()) + len(catalogue_yaml()), 'shapes_small': len(catalogue_small()),
                   'base_addresses': BASES},
        'assumptions': [
            'pinned conventions (not fixed by any document in the repository): several prefix-positioned operand codes appear in '
            'reverse operand order, reverse_bytecode_order reverses the prefix and the suffix group separately, operand codes '
            'are big-endian',
            'reference encoder mc/refenc.py (bit strings; little-endian field = low byte first, last chunk carries width mod 8 bits)',
            'statements are batched (one assembly per generated ISA definition and base address); on any mismatch every statement '
            'of the batch is re-assembled on its own to isolate the failing ones',
        ],
        'floors': {'evaluations': 50, 'nontrivial': 1000, 'statuses': ['OK'], 'clauses': ['single', 'pair', 'variant-sequence', 'zero-operand-variant', 'shared-operand-set']},
        'nshards': 64, 'xcheck': 8,
    }


def statements_for(ins, de, max_combo=None):
    """-> list of instance combos"""
    lists = [sh['insts'] for sh in ins.shapes]
    combos = list(itertools.product(*lists)) if lists else [()]
    if max_combo and len(combos) > max_combo:
        step = len(combos) / max_combo
        combos = [combos[int(i * step)] for i in range(max_combo)]
    return combos


def run_batch(acc, instrs, de, clause, yaml=False):
    """instrs: list of (InstrSpec, combos)."""
    isa = G.build_isa([i for i, _ in instrs], de)
    consts = {}
    for ins, _ in instrs:
        for sh in ins.shapes:
            consts.update(sh.get('consts', {}))
    for base in BASES:
        lines = [f'{k} = {v}' for k, v in sorted(consts.items())]
        lines.append(f'.org {base}')
        addr = base
        expected = bytearray()
        stmts = []
        for ins, combos in instrs:
            for combo in combos:
                ordered, isize, texts = ins.fields(de, combo, addr)
                # address-dependent fields: resolve callables / offsets now that the address is known
                data = refenc.encode(ordered)
                assert len(data) == isize
                text = ins.mnemonic + (' ' + ', '.join(texts) if texts else '')
                stmts.append((ins, combo, addr, text, data))
                lines.append('    ' + text)
                expected += data
                addr += isize
        case = Case(isa, '\n'.join(lines) + '\n', start=base, isa_yaml=yaml)
        out = acc.run(case)
        ok = out.status == 'OK' and out.image == bytes(expected)
        if not ok:
            before = acc.nviol
            # isolate: every statement on its own, at its own address
            for ins, combo, a, text, data in stmts:
                single = Case(G.build_isa([ins], de), '\n'.join([f'{k} = {v}' for k, v in sorted(consts.items())] +
                                                                [f'.org {a}', '    ' + text]) + '\n', start=a, isa_yaml=yaml)
                o = acc.run(single, xcheck=False)
                spec = {'expect': 'OK', 'image_hex': data.hex(), 'statement': text, 'address': a}
                m = judge(spec, [o])
                if m:
                    acc.violation([single], spec, f'{text!r} at {a:#x}: {m}', [o])
            if acc.nviol == before:
                # every statement is right on its own (own definition, own assembly) but the sequence is not: the encoding
                # depends on the other statements or on the other instructions of the definition
                spec = {'expect': 'OK', 'image_hex': bytes(expected).hex(), 'statement': 'the whole sequence', 'address': base}
                acc.violation([case], spec, 'statements encoded as prescribed one by one are encoded differently in sequence: '
                              + str(judge(spec, [out])), [out])
        for ins, combo, a, text, data in stmts:
            nbits = sum(f[1] for f in ins.fields(de, combo, a)[0])
            nt = (nbits % 8 != 0) or len(ins.shapes) >= 2 or any(sh['endian'] for sh in ins.shapes) or ins.opcode_endian
            acc.judge(clause=clause, nontrivial_distinct=bool(nt))
        if stmts:
            ins, combo, a, text, data = stmts[len(stmts) // 2]
            acc.sample({'default_endian': de, 'statement': text, 'address': hex(a), 'expected_bytes': data.hex(),
                        'instruction_config': ins.config(de, {})})


def shard(acc, tier, idx, n):
    q = tier == 'quick'
    ctr = 0
    variant_sequences(acc, idx, n)
    zero_operand_variants(acc, idx, n)
    shared_operand_set(acc, idx, n)
    full = catalogue_full()
    ycat = catalogue_yaml()
    small = catalogue_small()
    CH = 40
    # ---- part A: single operand, full grid ----------------------------------------------------------
    for (de, op, oe, suf) in frames(tier, 'A'):
        for cat, yaml in ((full, False), (ycat, True)):
            for c0 in range(0, len(cat), CH):
                ctr += 1
                if ctr % n != idx:
                    continue
                instrs = []
                for k, sh in enumerate(cat[c0:c0 + CH]):
                    ins = G.InstrSpec(f'i{k}', (op[0], op[1]), oe, suf, [sh])
                    instrs.append((ins, statements_for(ins, de)))
                # plus the operand-less instruction of this frame
                instrs.append((G.InstrSpec('inop', (op[0], op[1]), oe, suf, []), [()]))
                # ... and the same with `operands: {count: 0}` spelled out
                instrs.append((G.InstrSpec('inop0', (op[0], op[1]), oe, suf, [], route='count0'), [()]))
                run_batch(acc, instrs, de, 'single', yaml)
    # ---- part B: pairs ---------------------------------------------------------------------------------
    for (de, op, oe, suf) in frames(tier, 'B'):
        for ra, rc in itertools.product((False, True), repeat=2):
            for route in ('sets', 'specific'):
                for s1 in range(len(small)):
                    ctr += 1
                    if ctr % n != idx:
                        continue
                    instrs = []
                    for s2 in range(len(small)):
                        ins = G.InstrSpec(f'p{s2}', (op[0], op[1]), oe, suf, [small[s1], small[s2]], ra, rc, route)
                        instrs.append((ins, statements_for(ins, de, max_combo=4)))
                    if route == 'specific':
                        for s2 in range(0, len(small), 3):
                            ins = G.InstrSpec(f'e{s2}', (op[0], op[1]), oe, suf,
                                              [small[s1], small[s2], G.shape_empty((2, 2), 'prefix' if s2 % 2 else 'suffix')], ra, rc, route)
                            instrs.append((ins, statements_for(ins, de, max_combo=2)))
                    run_batch(acc, instrs, de, 'pair')
    # ---- part C: triples (thorough) ------------------------------------------------------------------------
    if not q:
        tri = small[:8]
        for (de, op, oe, suf) in frames('quick', 'B'):
            for ra, rc in itertools.product((False, True), repeat=2):
                for s1, s2 in itertools.product(range(len(tri)), repeat=2):
                    ctr += 1
                    if ctr % n != idx:
                        continue
                    instrs = []
                    for s3 in range(len(tri)):
                        ins = G.InstrSpec(f't{s3}', (op[0], op[1]), oe, suf, [tri[s1], tri[s2], tri[s3]], ra, rc, 'sets')
                        instrs.append((ins, statements_for(ins, de, max_combo=3)))
                    run_batch(acc, instrs, de, 'triple')


def variant_sequences(acc, idx, n):
    """An instruction with two variants whose operand patterns overlap, used several times in one program: every statement is
    encoded by the first variant that accepts it, whatever the statements before it matched."""
    for de in ('big', 'little'):
        isa = {'general': {'address_size': 16, 'endian': de, 'registers': ['a', 'b', 'x'], 'min_version': '0.3.0'},
               'operand_sets': {
                   'r_ab': {'operand_values': {'ra': {'type': 'register', 'register': 'a', 'bytecode': {'value': 0, 'size': 4}},
                                               'rb': {'type': 'register', 'register': 'b', 'bytecode': {'value': 1, 'size': 4}}}},
                   'r_ax': {'operand_values': {'ra': {'type': 'register', 'register': 'a', 'bytecode': {'value': 0, 'size': 4}},
                                               'rx': {'type': 'register', 'register': 'x', 'bytecode': {'value': 2, 'size': 4}}}},
                   'i8': {'operand_values': {'i': {'type': 'numeric', 'argument': {'size': 8, 'byte_align': True}}}},
                   'i16': {'operand_values': {'i': {'type': 'numeric', 'argument': {'size': 16, 'byte_align': True, 'endian': 'little'}}}}},
               'instructions': {'ld': {'bytecode': {'value': 1, 'size': 4}, 'operands': {'count': 2, 'operand_sets': {'list': ['r_ab', 'i8']}},
                                       'variants': [{'bytecode': {'value': 9, 'size': 4},
                                                     'operands': {'count': 2, 'operand_sets': {'list': ['r_ax', 'i16']}}}]}}}
        stmts = [('ld a, 5', bytes([0x10, 5])), ('ld b, 7', bytes([0x11, 7])), ('ld x, $1234', bytes([0x92, 0x34, 0x12])),
                 ('ld x, 9', bytes([0x92, 9, 0])), ('ld A, $7F', bytes([0x10, 0x7F]))]
        ctr = 0
        for k in (1, 2, 3):
            for seq in itertools.product(stmts, repeat=k):
                ctr += 1
                if ctr % n != idx:
                    continue
                case = Case(isa, '\n'.join('    ' + t for t, _ in seq) + '\n')
                out = acc.run(case)
                spec = {'expect': 'OK', 'image_hex': b''.join(d for _, d in seq).hex(), 'statement': ' / '.join(t for t, _ in seq), 'address': 0}
                m = judge(spec, [out])
                if m:
                    acc.violation([case], spec, f'{spec["statement"]}: {m}', [out])
                acc.judge(clause='variant-sequence', nontrivial_distinct=(k > 1))


def zero_operand_variants(acc, idx, n):
    """An instruction whose variants differ in operand count, one of them taking none (`operands: {count: 0}`) and carrying its own
    opcode suffix: every field of the selected variant is emitted."""
    ctr = 0
    for de, (op0, w0), (sfx, sw) in itertools.product(('big', 'little'), ((0x5, 3), (0x16, 5), (0xA5, 8)), ((0x3, 2), (0x5, 3), (0x1A5, 9))):
        for zero_first in (False, True):
            ctr += 1
            if ctr % n != idx:
                continue
            with_reg = {'bytecode': {'value': op0, 'size': w0, 'suffix': {'value': sfx, 'size': sw}},
                        'operands': {'count': 1, 'operand_sets': {'list': ['r']}}}
            without = {'bytecode': {'value': op0 ^ 1, 'size': w0, 'suffix': {'value': sfx ^ 1, 'size': sw}}, 'operands': {'count': 0}}
            first, second = (without, with_reg) if zero_first else (with_reg, without)
            isa = {'general': {'address_size': 16, 'endian': de, 'registers': ['a', 'b'], 'min_version': '0.3.0'},
                   'operand_sets': {'r': {'operand_values': {'ra': {'type': 'register', 'register': 'a', 'bytecode': {'value': 1, 'size': 2}},
                                                             'rb': {'type': 'register', 'register': 'b', 'bytecode': {'value': 2, 'size': 2}}}}},
                   'instructions': {'shl': dict(first, variants=[second]),
                                    'ret': {'bytecode': {'value': op0, 'size': w0, 'suffix': {'value': sfx, 'size': sw}}, 'operands': {'count': 0}}}}
            from mc import refenc
            def enc(fields):
                return bytes(refenc.encode([(v, w, False, de) for v, w in fields]))
            stmts = [('shl a', enc([(op0, w0), (1, 2), (sfx, sw)])), ('shl b', enc([(op0, w0), (2, 2), (sfx, sw)])),
                     ('shl', enc([(op0 ^ 1, w0), (sfx ^ 1, sw)])), ('ret', enc([(op0, w0), (sfx, sw)]))]
            for k in (1, 2):
                for seq in itertools.product(stmts, repeat=k):
                    case = Case(isa, '\n'.join('    ' + t for t, _ in seq) + '\n')
                    out = acc.run(case)
                    spec = {'expect': 'OK', 'image_hex': b''.join(d for _, d in seq).hex(), 'statement': ' / '.join(t for t, _ in seq), 'address': 0}
                    m = judge(spec, [out])
                    if m:
                        acc.violation([case], spec, f'{spec["statement"]} (opcode {w0} bits, suffix {sw} bits, {de}): {m}', [out])
                    acc.judge(clause='zero-operand-variant', nontrivial_distinct=True)


def shared_operand_set(acc, idx, n):
    """One operand set used for two positions of an instruction (and by several instructions on one line): each operand is encoded from
    its own text - labels, constants and character literals are case sensitive, so 'a' / 'A' and kv / KV are different values."""
    from mc import refenc
    for di, de in enumerate(('big', 'little')):
        isa = {'general': {'address_size': 16, 'endian': de, 'registers': ['a', 'b'], 'min_version': '0.3.0'},
               'operand_sets': {'v8': {'operand_values': {'ra': {'type': 'register', 'register': 'a', 'bytecode': {'value': 1, 'size': 2}},
                                                          'i': {'type': 'numeric', 'bytecode': {'value': 2, 'size': 2}, 'argument': {'size': 8, 'byte_align': True}}}},
                                'v16': {'operand_values': {'w': {'type': 'numeric', 'argument': {'size': 16, 'byte_align': True}}}}},
               'instructions': {'cmp': {'bytecode': {'value': 9, 'size': 4}, 'operands': {'count': 2, 'operand_sets': {'list': ['v8', 'v8']}}},
                                'ldw': {'bytecode': {'value': 0xC3, 'size': 8}, 'operands': {'count': 2, 'operand_sets': {'list': ['v16', 'v16']}}}}}
        vals = {"'a'": 0x61, "'A'": 0x41, 'kv': 0x15, 'KV': 0x29, 'kv+1': 0x16, 'KV+1': 0x2A, "'q'": 0x71, 'a': None, 'A': None}

        def cmp_bytes(x, y):
            fields = [(9, 4, False, de)]
            for t in (x, y):
                fields.append(((1, 2, False, 'big') if vals[t] is None else (2, 2, False, 'big')))
            for t in (x, y):
                if vals[t] is not None:
                    fields.append((vals[t], 8, True, de))
            return bytes(refenc.encode(fields))

        def ldw_bytes(x, y):
            return bytes(refenc.encode([(0xC3, 8, False, de), (vals[x] + 0x1200, 16, True, de), (vals[y] + 0x1200, 16, True, de)]))

        texts = list(vals)
        stmts = [(f'cmp {x}, {y}', cmp_bytes(x, y)) for x, y in itertools.product(texts, repeat=2)]
        stmts += [(f'ldw {x}+$1200, {y}+$1200', ldw_bytes(x, y)) for x, y in itertools.product(('kv', 'KV'), repeat=2)]
        ctr = 0
        for k in (1, 2):
            for seq in itertools.product(stmts, repeat=k):
                ctr += 1
                if ctr % n != idx or (k == 2 and (ctr // n) % 3):
                    continue            # pairs: every third (of each shard) - they are joined on one line
                src = 'kv = $15\nKV = $29\n    ' + ' '.join(t for t, _ in seq) + '\n'
                case = Case(isa, src)
                out = acc.run(case)
                spec = {'expect': 'OK', 'image_hex': b''.join(d for _, d in seq).hex(), 'statement': ' '.join(t for t, _ in seq), 'address': 0}
                m = judge(spec, [out])
                if m:
                    acc.violation([case], spec, f'{spec["statement"]} ({de}): {m}', [out])
                acc.judge(clause='shared-operand-set', nontrivial_distinct=True)


def judge(spec, outcomes):
    from mc.judges import judge_expect
    return judge_expect(spec, outcomes)
