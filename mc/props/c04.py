"""C04 - two lines never silently occupy the same address.

Every placement of 2-3 (thorough: 4) byte-producing lines (start x length x kind) in every source
order; rejection expected iff two lines of length >= 1 share an address.
"""
import itertools

from mc import refasm as R
from mc.histories import run_program
from mc.judges import judge_expect
from mc.probe_isa import probe_isa
from mc.world import Case

ID = 'C04'
LEVEL = 'model_checking'

FORMATS = ('hex', 'listing', 'intel_hex', 'minhex')
ZONES = [{'name': 'z1', 'start': 2, 'end': 9}, {'name': 'z2', 'start': 4, 'end': 12},
         {'name': 'z3', 'start': 0, 'end': 2},        # shares exactly one address (2) with z1
         {'name': 'z4', 'start': 3, 'end': 3}]        # one address wide


def line_options(starts, quick):
    """(descriptor, start, length); descriptors are turned into statements by `place`."""
    opts = []
    for s in starts:
        for n in (1, 2, 3):
            opts.append(('bytes', s, n))
        for n in (0, 1, 3):
            opts.append(('fill', s, n))
        opts.append(('zerountil', s, 2))
        opts.append(('zerountil', s, 0))
        opts.append(('nop', s, 1))
        opts.append(('ldi', s, 2))
        opts.append(('jmp', s, 3))
        opts.append(('m2', s, 4))             # macro of two 12-bit steps, each padded on its own: 4 bytes
        opts.append(('wstr', s, 4))           # .2byte "AB": two characters, two bytes each
        opts.append(('mbytes', s, 1))         # a muted line (judged only where it does not decide: two unmuted lines still collide or not)
        opts.append(('mbytes', s, 2))
        if 2 <= s <= 8:
            opts.append(('zorg1', s, 2))      # .org (s-2) "z1"
        if 4 <= s <= 10:
            opts.append(('zorg2', s, 1))      # .org (s-4) "z2"
        if 0 <= s <= 2:
            opts.append(('zorg3', s, 1))      # .org s "z3"
        if s == 3:
            opts.append(('zorg4', s, 1))      # .org 0 "z4"
        opts.append(('inc', s, 2))            # the line lives in an included file
        opts.append(('predef', s, 2))         # predefined data block of the ISA definition
    return opts


def place(lines):
    """-> (params, files) or None if the combination is not expressible (two predefined blocks / includes)."""
    data = []
    main = []
    files = {}
    ninc = 0
    for i, (kind, s, n) in enumerate(lines):
        m = 0x30 + 0x10 * i
        if kind == 'predef':
            if len(data) >= 2:
                return None
            data.append({'name': f'blk{i}', 'address': s, 'value': m, 'size': n})
            continue
        if kind == 'bytes':
            body = [('org', s, None), ('data', 1, [m + j for j in range(n)])]
        elif kind == 'fill':
            body = [('org', s, None), ('fill', n, m)]
        elif kind == 'zerountil':
            body = [('org', s, None), ('zerountil', s + n - 1)]
        elif kind == 'nop':
            body = [('org', s, None), ('nop',)]
        elif kind == 'ldi':
            body = [('org', s, None), ('ldi', 'a', m)]
        elif kind == 'jmp':
            body = [('org', s, None), ('jmp', 0x20 + i)]
        elif kind == 'mbytes':
            body = [('mute',), ('org', s, None), ('data', 1, [m + j for j in range(n)]), ('unmute',)]
        elif kind == 'm2':
            body = [('org', s, None), ('m2', m & 0xFF, (m + 1) & 0xFF)]
        elif kind == 'wstr':
            body = [('org', s, None), ('rawbytes', '    .2byte "AB"', [0x41, 0, 0x42, 0])]
        elif kind == 'zorg1':
            body = [('org', s - 2, 'z1'), ('data', 1, [m, m + 1])]
        elif kind == 'zorg2':
            body = [('org', s - 4, 'z2'), ('data', 1, [m])]
        elif kind == 'zorg3':
            body = [('org', s, 'z3'), ('data', 1, [m])]
        elif kind == 'zorg4':
            body = [('org', 0, 'z4'), ('data', 1, [m])]
        elif kind == 'inc':
            if ninc:
                return None
            ninc += 1
            files['inc.asm'] = [('org', s, None), ('data', 1, [m, m + 1])]
            body = [('include', 'inc.asm')]
        main += body
    files['main.asm'] = main
    params = R.Params(address_size=16, endian='little', zones=ZONES, data=data, origin=0x40)
    return params, files


def meta(tier):
    q = tier == 'quick'
    return {
        'rule': 'every ordered pair (thorough: and triple over starts 0..6; quick: triples over starts 0..3) of byte-producing lines '
                'drawn from start x kind/length options, each placed by its own origin; expected rejection iff two lines of '
                'length >= 1 share an address, otherwise the image is the union; non-trivial = ranges touch or overlap, or a '
                'zero-length line lies inside another range; every pair (and every touching triple) is run a second time with '
                '--no-binary and one of the four pretty-print formats, with --no-binary alone, with -vvv, or with an image window (-s / -e) that contains none of the lines, judged on acceptance only; plus every program of up to 4 (thorough 5) lines over bytes / fills / a macro / zone switches / includes of a plain file and of a file that switches zone '
                'without any origin directive or predefined data (collisions through overlapping zones and code growing into a zone only); plus every ordered pair of lines placed in the last 6 addresses of an 8- / 16-bit address space; states = distinct sets of occupied (address, owner) cells',
        'bounds': {'starts': 'pairs 0..6; triples 0..3 (quick) / 0..6 (thorough)',
                   'kinds': ['.byte x1..3', '.fill 0|1|3', '.zerountil (len 2, len 0)', 'nop', 'ldi', 'jmp', 'm2 (macro of two 12-bit steps)', '.2byte "AB" (4 bytes)',
                             '.org k "z1" (z1=2..9)', '.org k "z2" (z2=4..12, overlapping z1)', '.org k "z3" (z3=0..2, sharing one address with z1)', '.org 0 "z4" (z4=3..3)', 'line in an included file',
                             'predefined data block'],
                   'orders': 'all permutations (ordered tuples)'},
        'assumptions': ['an overlap that involves a muted line is not judged (the statement does not say whether muted bytes occupy); two unmuted '
                        'lines on one address are rejected whatever muted lines lie between or around them'],
        'floors': {'evaluations': 1000, 'nontrivial': 100, 'statuses': ['OK', 'REJECT'], 'clauses': ['disjoint-accepted', 'overlap-rejected', 'no-binary-overlap-rejected', 'no-binary-disjoint-accepted']},
        'nshards': 64,
    }


def relation(lines):
    rs = [(s, s + n - 1, n) for _, s, n in lines]
    touch = False
    for (a0, a1, an), (b0, b1, bn) in itertools.combinations(rs, 2):
        if an == 0 or bn == 0:
            z, o = ((a0, (b0, b1)) if an == 0 else (b0, (a0, a1)))
            if o[0] <= z <= o[1] + 1:
                touch = True
            continue
        if a1 + 1 >= b0 and b1 + 1 >= a0:
            touch = True
    return touch


def shard(acc, tier, idx, n):
    q = tier == 'quick'
    sequential_programs(acc, idx, n, q)
    top_of_memory(acc, idx, n)
    isa_cache = {}
    ctr = 0
    pair_opts = line_options(range(0, 7), q)
    tri_opts = line_options(range(0, 4) if q else range(0, 7), q)
    if q:
        tri_opts = [o for o in tri_opts if o[0] in ('bytes', 'fill', 'jmp', 'm2', 'wstr', 'mbytes', 'zorg1', 'zorg3', 'zorg4', 'inc', 'predef') and not (o[0] == 'bytes' and o[2] == 2)]
    plans = [(pair_opts, 2), (tri_opts, 3)]
    if not q:
        quad = [o for o in line_options(range(0, 4), q) if o[0] in ('bytes', 'fill', 'predef') and o[2] in (0, 2)]
        plans.append((quad, 4))
    for opts, k in plans:
        for lines in itertools.product(opts, repeat=k):
            ctr += 1
            if ctr % n != idx:
                continue
            pl = place(lines)
            if pl is None:
                continue
            params, files = pl
            key = repr(params.data)
            if key not in isa_cache:
                isa_cache[key] = probe_isa(16, 'little', origin=0x40, zones=ZONES, data=params.data or None)
            touch = relation(lines)
            ref, out, msg = run_program(
                acc, params, isa_cache[key], files,
                clause=lambda r: 'overlap-rejected' if r.status == 'REJECT' else 'disjoint-accepted',
                nontrivial=(lines if touch else None), sample=(ctr % 997 == 0))
            if ref.status != 'DC' and (k == 2 or touch):
                # the same program with --no-binary and a pretty print only: acceptance must not depend on the outputs requested
                fmt = FORMATS[ctr % len(FORMATS)]
                if (ctr // len(FORMATS)) % 4 == 3:
                    case2 = Case(isa_cache[key], R.render_files(files), verbose=3)          # everything is logged
                    mode = '-vvv'
                elif (ctr // len(FORMATS)) % 4 == 0:
                    case2 = Case(isa_cache[key], R.render_files(files), binary=False, pretty=fmt)
                    mode = f'--no-binary -p -t {fmt}'
                elif (ctr // len(FORMATS)) % 4 == 2:
                    case2 = Case(isa_cache[key], R.render_files(files), binary=False)          # nothing at all is written
                    mode = '--no-binary'
                else:
                    # ... or with an image window that lies entirely above (or below) every line of the program
                    above = (ctr // (4 * len(FORMATS))) % 2 == 0
                    case2 = Case(isa_cache[key], R.render_files(files), pretty=fmt, start=0x60 if above else 0, end=None if above else 0)
                    mode = f'-s 96 -p -t {fmt}' if above else f'-e 0 -p -t {fmt}'
                out2 = acc.run(case2)
                acc.transition()
                spec2 = {'expect': ref.status, 'status_only': True, 'image_hex': None, 'why': getattr(ref, 'reason', ''), 'mode': mode}
                msg2 = judge_expect(spec2, [out2])
                if msg2:
                    acc.violation([case2], spec2, f'[{mode}] {msg2}', [out2])
                acc.judge(clause='no-binary-overlap-rejected' if ref.status == 'REJECT' else 'no-binary-disjoint-accepted',
                          nontrivial_key=(lines, fmt) if touch else None)
            if ref.status != 'DC':
                acc.state(tuple(sorted((a, 1) for a in ref.mem)) if ref.status == 'OK' else ('REJECT', tuple(sorted((s, nn) for _, s, nn in lines))))


def sequential_programs(acc, idx, n, q):
    """Programs without a single origin directive and without predefined data: lines collide only because zones overlap each other or
    GLOBAL code grows into a zone."""
    from mc.histories import histories
    params = R.Params(address_size=16, endian='little', zones=ZONES, origin=0)
    isa = probe_isa(16, 'little', zones=ZONES)

    def sigma(i):
        m = 0x30 + 0x10 * i
        return [('data', 1, [m]), ('data', 1, [m, m + 1, m + 2]), ('fill', 2, m + 5), ('nop',), ('m2', m & 0xFF, 1),
                ('memzone', 'z1'), ('memzone', 'z2'), ('memzone', 'z3'), ('memzone', 'z4'), ('memzone', 'GLOBAL'),
                # an included file is laid out in GLOBAL and its includer resumes its own zone: zone changes without any directive
                ('include', f'p{i}.asm'), ('include', f'z{i}.asm')]
    nsym = len(sigma(0))
    depth = 4 if q else 5

    def build(h):
        files = {'main.asm': [sigma(i)[j] for i, j in enumerate(h)]}
        for i, j in enumerate(h):
            m = 0x38 + 0x10 * i
            if j == 10:
                files[f'p{i}.asm'] = [('data', 1, [m, m + 1, m + 2])]
            elif j == 11:
                files[f'z{i}.asm'] = [('data', 1, [m]), ('memzone', 'z2'), ('data', 1, [m + 1, m + 2])]
        return files

    def ok(h):
        return R.assemble(params, build(h)).status != 'REJECT'

    for h in histories(list(range(nsym)), depth, idx, n, prefix_ok=ok):
        files = build(h)
        ref, out, msg = run_program(acc, params, isa, files,
                                    clause=lambda r: 'overlap-rejected' if r.status == 'REJECT' else 'disjoint-accepted',
                                    nontrivial=(('seq', h) if any(j >= 5 for j in h) else None), sample=(len(h) == depth and sum(h) % 97 == 0))


def top_of_memory(acc, idx, n):
    """Two lines near the last address of an 8-bit and a 16-bit address space, one of them ending exactly on it, in both source orders:
    rejected iff they share an address (or a byte would lie beyond the last address)."""
    ctr = 0
    for bits in (8, 16):
        top = (1 << bits) - 1
        params = R.Params(address_size=bits, endian='little', origin=0)
        isa = probe_isa(bits, 'little')
        opts = []
        for s0 in range(top - 5, top + 1):
            for ln in (1, 2, 3):
                opts.append(('bytes', s0, ln))
            opts.append(('fill', s0, 2))
            opts.append(('nop', s0, 1))
        opts.append(('zerountil', top - 3, 4))
        for a, b in itertools.product(opts, repeat=2):
            ctr += 1
            if ctr % n != idx:
                continue
            main = []
            for i, (kind, s0, ln) in enumerate((a, b)):
                m = 0x30 + 0x10 * i
                main.append(('org', s0, None))
                main.append({'bytes': ('data', 1, [m + j for j in range(ln)]), 'fill': ('fill', ln, m), 'nop': ('nop',),
                             'zerountil': ('zerountil', top)}[kind])
            files = {'main.asm': main}
            ref, out, msg = run_program(acc, params, isa, files, start=top - 7,
                                        clause=lambda r: 'overlap-rejected' if r.status == 'REJECT' else 'disjoint-accepted',
                                        nontrivial=('top', bits, a, b), sample=(ctr % 499 == 0))
            if ref.status != 'DC':
                acc.state(('top', bits, a, b))


def judge(spec, outcomes):
    from mc.judges import judge_expect
    return judge_expect(spec, outcomes)
