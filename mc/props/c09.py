"""C09 - preprocessor symbols are substituted as whole words, in definition order.

Product enumeration of symbol tables (values: literals, chains, diamonds, self reference, 2- and
3-cycles, identifiers that merely contain a symbol name) x definition source of every symbol (ISA
definition, -D, #define) x use lines placed before and after the #define block.  The reference is
a token-level whole-word substitution written here; it never looks at bespokeasm.
"""
import itertools

from mc.judges import judge_expect
from mc.probe_isa import probe_isa
from mc.world import Case

ID = 'C09'
LEVEL = 'model_checking'

SYMS = ('AB', 'CD', 'EF')
CONSTS = {'XAB': 0x71, 'ABX': 0x72, 'AB_1': 0x73, '_AB': 0x74, 'ABCD': 0x75, 'ab': 0x76}      # ab: not the symbol AB
SHADOW = {'AB': 0x61, 'CD': 0x62, 'EF': 0x63}      # constants with the name of a symbol (visible before its #define)

# value alternatives, as token lists
VALUES = {
    'AB': [None, ['5'], ['CD'], ['CD', '+', 'EF'], ['AB'], ['XAB'], ['CD', '+', 'CD'], ['ABCD']],
    'CD': [None, ['6'], ['EF'], ['AB'], ['AB_1']],
    'EF': [None, ['7'], ['AB'], ['ABX']],
}
SOURCES = ('isa', 'cli', 'define')
USE_TOKENS = [['AB'], ['CD'], ['EF'], ['XAB'], ['ABX'], ['AB_1'], ['_AB'], ['ABCD'], ['AB', '*', '2'], ['AB', '+', 'CD'], ['ab']]
USE_PAIRS_Q = [(0, 3), (0, 7), (3, 0), (1, 4), (2, 5), (8, 6), (9, 1), (0, 0), (7, 7), (4, 2), (6, 8), (5, 9), (0, 10), (10, 1)]


class Reject(Exception):
    pass


def subst(tokens, table, active=()):
    out = []
    for t in tokens:
        if t in table:
            if t in active:
                raise Reject(f'symbol {t} leads back to itself')
            out += subst(table[t], table, active + (t,))
        else:
            out.append(t)
    return out


def value_of(tokens, env):
    """tokens over identifiers, integers, + and * -> int; unknown identifier -> Reject."""
    parts = []
    for t in tokens:
        if t in ('+', '*'):
            parts.append(t)
        elif t.isdigit():
            parts.append(t)
        elif t in env:
            parts.append(str(env[t]))
        else:
            raise Reject(f'{t} has no definition')
    return eval(''.join(parts), {'__builtins__': {}})   # only digits, + and * reach this point


def meta(tier):
    q = tier == 'quick'
    return {
        'rule': 'a symbol beside quoted characters / strings on the same line (8 line shapes x 3 definition sources); symbol tables: AB in 8 values x CD in 5 x EF in 4 (undefined, literal, chain, diamond, self, 2-/3-cycles, identifiers '
                'containing a symbol name) x definition source of each defined symbol in {ISA, -D, #define} x use-line token pairs '
                '(written once before and once after the #define block, as `.byte t1, t2`, through `T = t1` and as the operand of `ldi b, t2`); plus every '
                'double definition across and within sources; replacement texts with backslash escapes (5 strings x 3 sources x chains of 0..2 intermediate '
                'symbols) used in .cstr / .byte; 2..33 occurrences of one symbol on a line / in a replacement text; symbols without a value (3 sources x chains) in 7 lines that stay well-formed when the name disappears; symbol names that also read as numbers (b1, DEH, b101, ACH, each) x 3 sources x chains of 0..2 x alone / next to another symbol, and self-definitions of such names; chains in which the name of a symbol contains the name of the symbol it expands to (BASE_HI -> BASE); integer-valued ISA symbols; #define and use in different files at every combination of line numbers (0/3/9 lines before the definition, 0/2/12 before the use); symbols whose name is the tail of a number literal on the same line ($1B and B, 10H and H); non-trivial = table with a chain/diamond/cycle or a use line that '
                'mixes a symbol with an identifier containing its name; states = distinct (table, sources) pairs',
        'bounds': {'symbols': SYMS, 'values': {k: [None if v is None else ' '.join(v) for v in vs] for k, vs in VALUES.items()},
                   'containing_identifiers': CONSTS, 'use_tokens': [' '.join(t) for t in USE_TOKENS],
                   'use_pairs': 'the 14 listed pairs' if q else 'all 121 pairs', 'sources': SOURCES},
        'assumptions': ['substitution is textual (a replacement `CD+EF` inside `AB*2` gives `6+7*2`), as the statement says "replacement text"',
                        'symbols with an empty replacement are used where removing the name leaves a well-formed line'],
        'floors': {'evaluations': 1000, 'nontrivial': 100, 'statuses': ['OK', 'REJECT'],
                   'clauses': ['substituted', 'cycle-rejected', 'double-definition-rejected', 'string-replacement', 'empty-replacement']},
        'nshards': 64,
    }


def build(table, sources, pair):
    """-> (Case, spec)"""
    isa_syms = [{'name': n, 'value': ' '.join(table[n])} for n in SYMS if table[n] is not None and sources[n] == 'isa']
    cli = [f'{n}={"".join(table[n])}' for n in SYMS if table[n] is not None and sources[n] == 'cli']
    early = {n: table[n] for n in SYMS if table[n] is not None and sources[n] in ('isa', 'cli')}
    full = {n: table[n] for n in SYMS if table[n] is not None}
    lines = []
    env = dict(CONSTS)
    for n, v in CONSTS.items():
        lines.append(f'{n} = {v}')
    for n in SYMS:
        if n not in early:
            lines.append(f'{n} = {SHADOW[n]}')
            env[n] = SHADOW[n]
    t1, t2 = USE_TOKENS[pair[0]], USE_TOKENS[pair[1]]
    expect = []
    status = 'OK'
    why = ''

    def use(tbl, tag):
        nonlocal status, why
        lines.append(f'    .byte {" ".join(t1)}, {" ".join(t2)}')
        lines.append(f'T{tag} = {" ".join(t1)}')
        lines.append(f'    .byte T{tag}')
        lines.append(f'    ldi b, {" ".join(t2)}')          # substitution inside an instruction operand as well
        if status != 'OK':
            return
        try:
            a = value_of(subst(t1, tbl), env)
            b = value_of(subst(t2, tbl), env)
            if not -128 <= b <= 255:
                raise Reject('operand does not fit 8 bits')
            expect.extend([a & 0xFF, b & 0xFF, a & 0xFF, 0xA1, b & 0xFF])
        except Reject as e:
            status, why = 'REJECT', str(e)

    use(early, 1)
    for n in SYMS:
        if table[n] is not None and sources[n] == 'define':
            lines.append(f'#define {n} {" ".join(table[n])}')
    use(full, 2)
    isa = probe_isa(16, 'little', symbols=isa_syms or None)
    case = Case(isa, '\n'.join(lines) + '\n', defines=cli)
    spec = {'expect': 'OK', 'image_hex': bytes(expect).hex()} if status == 'OK' else {'expect': 'REJECT', 'why': why}
    return case, spec


def interesting(table, pair):
    chain = any(v is not None and any(t in SYMS for t in v) for v in table.values())
    mix = {tuple(USE_TOKENS[pair[0]]), tuple(USE_TOKENS[pair[1]])} & {('XAB',), ('ABX',), ('AB_1',), ('_AB',), ('ABCD',), ('ab',)}
    return chain or bool(mix)


def shard(acc, tier, idx, n):
    q = tier == 'quick'
    pairs = USE_PAIRS_Q if q else list(itertools.product(range(len(USE_TOKENS)), repeat=2))
    ctr = 0
    for va, vc, ve in itertools.product(VALUES['AB'], VALUES['CD'], VALUES['EF']):
        table = {'AB': va, 'CD': vc, 'EF': ve}
        defined = [s for s in SYMS if table[s] is not None]
        for srcs in itertools.product(SOURCES, repeat=len(defined)):
            sources = dict(zip(defined, srcs))
            ctr += 1
            if ctr % n != idx:
                continue
            acc.state((va and tuple(va), vc and tuple(vc), ve and tuple(ve), srcs))
            for pair in pairs:
                case, spec = build(table, sources, pair)
                out = acc.run(case)
                acc.transition()
                msg = judge_expect(spec, [out])
                if msg:
                    acc.violation([case], spec, msg, [out])
                clause = 'substituted' if spec['expect'] == 'OK' else ('cycle-rejected' if 'itself' in spec['why'] else 'undefined-rejected')
                acc.judge(clause=clause, nontrivial_key=(ctr, pair) if interesting(table, pair) else None)
                if ctr % 211 == 0:
                    acc.sample({'program': case.files['main.asm'], 'cli_defines': list(case.defines),
                                'isa_symbols': case.isa.get('predefined', {}).get('symbols'), 'reference': spec})
    # ---- double definitions ------------------------------------------------------------------------
    for (s1, s2) in itertools.product(SOURCES, repeat=2):
        for v1, v2 in itertools.product(['5', '', '6'], repeat=2):
            ctr += 1
            if ctr % n != idx:
                continue
            isa_syms, cli, lines = [], [], []
            for s, v in ((s1, v1), (s2, v2)):
                if s == 'isa':
                    isa_syms.append({'name': 'AB', 'value': v} if v else {'name': 'AB'})
                elif s == 'cli':
                    cli.append(f'AB={v}' if v else 'AB')
                else:
                    lines.append(f'#define AB {v}'.rstrip())
            lines.append('    .byte 1')
            case = Case(probe_isa(16, 'little', symbols=isa_syms or None), '\n'.join(lines) + '\n', defines=cli)
            out = acc.run(case)
            acc.transition()
            spec = {'expect': 'REJECT', 'why': f'AB defined twice ({s1}, {s2})'}
            msg = judge_expect(spec, [out])
            if msg:
                acc.violation([case], spec, msg, [out])
            acc.judge(clause='double-definition-rejected', nontrivial_key=('dd', s1, s2, v1, v2))
    ctr = string_replacements(acc, idx, n, ctr)
    ctr = empty_replacements(acc, idx, n, ctr)
    ctr = many_occurrences(acc, idx, n, ctr)
    ctr = number_like_names(acc, idx, n, ctr) or ctr + 5000
    beside_quoted_text(acc, idx, n, ctr)


# replacement texts that carry backslashes (string escapes): copied verbatim, whatever the source and through chains
STR_VALUES = [('"a\\\\b"', [0x61, 0x5C, 0x62]), ('"\\x41B"', [0x41, 0x42]), ('"p\\n"', [0x70, 0x0A]), ('"\\\\t\\t"', [0x5C, 0x74, 0x09]),
              ('"\\\\1"', [0x5C, 0x31])]


def string_replacements(acc, idx, n, ctr0):
    ctr = ctr0
    for (text, data), src, chain in itertools.product(STR_VALUES, SOURCES, (0, 1, 2)):
        ctr += 1
        if ctr % n != idx:
            continue
        names = ['ST', 'MID', 'OUT'][:chain + 1]
        table = {names[0]: text}
        for a, b in zip(names[1:], names):
            table[a] = b
        isa_syms = [{'name': k, 'value': v} for k, v in table.items()] if src == 'isa' else []
        cli = [f'{k}={v}' for k, v in table.items()] if src == 'cli' else []
        lines = [f'#define {k} {v}' for k, v in table.items()] if src == 'define' else []
        lines += [f'    .cstr {names[-1]}', f'    .byte {names[-1]}', '    .byte $EE']
        case = Case(probe_isa(16, 'little', symbols=isa_syms or None), '\n'.join(lines) + '\n', defines=cli)
        out = acc.run(case)
        acc.transition()
        spec = {'expect': 'OK', 'image_hex': bytes(data + [0] + data + [0xEE]).hex(), 'replacement_text': text, 'source': src, 'chain': chain}
        msg = judge_expect(spec, [out])
        if msg:
            acc.violation([case], spec, f'replacement text {text} from {src} through {chain} intermediate symbols: {msg}', [out])
        acc.judge(clause='string-replacement', nontrivial_key=('str', text, src, chain))
        acc.sample({'program': case.files['main.asm'], 'cli_defines': cli, 'isa_symbols': isa_syms, 'reference': spec})
    return ctr


def empty_replacements(acc, idx, n, ctr0):
    """A symbol defined without a value is replaced by nothing (the name disappears), whatever its source and through chains."""
    ctr = ctr0
    uses = [('    .byte EM 9', [9]), ('    ldi b, EM 7', [0xA1, 7]), ('    .byte 1, EM 2', [1, 2]), ('    .byte 4 EM', [4]),
            ('    EM ldi a, 3', [0xA0, 3]), ('    .byte EM -3', [0xFD]), ('    .byte EM EM 6 EM', [6])]
    for src, chain, (line, data) in itertools.product(SOURCES, (0, 1), uses):
        ctr += 1
        if ctr % n != idx:
            continue
        names = ['EV', 'EM'] if chain else ['EM']          # EM -> EV -> nothing, or EM -> nothing
        table = {names[0]: ''}
        for a, b in zip(names[1:], names):
            table[a] = b
        isa_syms = [({'name': k, 'value': v} if v else {'name': k}) for k, v in table.items()] if src == 'isa' else []
        cli = [(f'{k}={v}' if v else k) for k, v in table.items()] if src == 'cli' else []
        lines = []
        if src == 'define':
            lines.append('EM = 97')           # a constant of the same name, visible only before the #define
            lines += [f'#define {k} {v}'.rstrip() for k, v in table.items()]
        lines += [line, '    .byte $EE']
        case = Case(probe_isa(16, 'little', symbols=isa_syms or None), '\n'.join(lines) + '\n', defines=cli)
        out = acc.run(case)
        acc.transition()
        spec = {'expect': 'OK', 'image_hex': bytes(data + [0xEE]).hex(), 'source': src, 'chain': chain, 'line': line.strip()}
        msg = judge_expect(spec, [out])
        if msg:
            acc.violation([case], spec, f'symbol without a value ({src}, chain {chain}) in {line.strip()!r}: {msg}', [out])
        acc.judge(clause='empty-replacement', nontrivial_key=('empty', src, chain, line))
    return ctr


def many_occurrences(acc, idx, n, ctr0):
    """Every occurrence is replaced, however many there are on one line or in one replacement text."""
    ctr = ctr0
    for src, count, where in itertools.product(SOURCES, (2, 8, 9, 10, 17, 33), ('line', 'value')):
        ctr += 1
        if ctr % n != idx:
            continue
        if where == 'line':
            table = {'MV': '5'}
            use = '    .byte ' + ', '.join(['MV'] * count)
        else:
            table = {'MV': '5', 'ROW': ', '.join(['MV'] * count)}
            use = '    .byte ROW'
        isa_syms = [{'name': k, 'value': v} for k, v in table.items()] if src == 'isa' else []
        cli = [f'{k}={v}' for k, v in table.items()] if src == 'cli' else []
        lines = [f'#define {k} {v}' for k, v in table.items()] if src == 'define' else []
        lines += [use, '    .byte $EE']
        case = Case(probe_isa(16, 'little', symbols=isa_syms or None), '\n'.join(lines) + '\n', defines=cli)
        out = acc.run(case)
        acc.transition()
        spec = {'expect': 'OK', 'image_hex': bytes([5] * count + [0xEE]).hex(), 'source': src, 'occurrences': count, 'where': where}
        msg = judge_expect(spec, [out])
        if msg:
            acc.violation([case], spec, f'{count} occurrences of one symbol in one {where} ({src}): {msg}', [out])
        acc.judge(clause='substituted', nontrivial_key=('many', src, count, where))
    return ctr


def beside_quoted_text(acc, idx, n, ctr0):
    """An occurrence outside quotes is replaced wherever quoted characters or strings stand on the same line: before it, after it, on
    both sides of it, with either kind of quote."""
    ctr = ctr0
    uses = [
        ("    .byte 1, 'x', MV, 'y'", [1, 0x78, 5, 0x79]),
        ("    .byte MV, 'x', MV", [5, 0x78, 5]),
        ("    .byte 1, 'x', 'y', MV", [1, 0x78, 0x79, 5]),
        ("    ldi a, 'x' + MV - 'y' + 2", [0xA0, 0x78 + 5 - 0x79 + 2]),
        ("    ldi a, '\"' + MV - '\"'", [0xA0, 5]),
        ("    ldi a, MV + 'x' - 'x'", [0xA0, 5]),
        ("    ldi a, 'x' nop ldi b, MV ldi a, 'y'", [0xA0, 0x78, 0xEA, 0xA1, 5, 0xA0, 0x79]),
        ('    .byte 2, MV\n    .cstr "a b"\n    .byte MV', [2, 5, 0x61, 0x20, 0x62, 0, 5]),
    ]
    for src, (use, body) in itertools.product(SOURCES, uses):
        ctr += 1
        if ctr % n != idx:
            continue
        table = {'MV': '5'}
        isa_syms = [{'name': k, 'value': v} for k, v in table.items()] if src == 'isa' else []
        cli = [f'{k}={v}' for k, v in table.items()] if src == 'cli' else []
        lines = [f'#define {k} {v}' for k, v in table.items()] if src == 'define' else []
        lines += [use, '    .byte $EE']
        case = Case(probe_isa(16, 'little', symbols=isa_syms or None), '\n'.join(lines) + '\n', defines=cli)
        out = acc.run(case)
        acc.transition()
        spec = {'expect': 'OK', 'image_hex': bytes(body + [0xEE]).hex(), 'source': src, 'use': use}
        msg = judge_expect(spec, [out])
        if msg:
            acc.violation([case], spec, f'symbol beside quoted text ({src}) in {use.strip()!r}: {msg}', [out])
        acc.judge(clause='substituted', nontrivial_key=('quoted', src, use))
    return ctr


def number_like_names(acc, idx, n, ctr0):
    """A defined symbol is replaced even when its name could also be read as a number (b1: binary 1, DEH: hexadecimal DE): used
    directly, through one or two intermediate symbols, alone on the line or next to another symbol; a self-reference is rejected."""
    ctr = ctr0
    for name, src, chain, company in itertools.product(('b1', 'DEH', 'b101', 'ACH', 'each'), SOURCES, (0, 1, 2), (False, True)):
        ctr += 1
        if ctr % n != idx:
            continue
        names = [name, 'MIDN', 'OUTN'][:chain + 1]
        table = {name: '0x42'}
        for a, b in zip(names[1:], names):
            table[a] = b
        if company:
            table['OTHER'] = '(3)'
        isa_syms = [{'name': k, 'value': v} for k, v in table.items()] if src == 'isa' else []
        cli = [f'{k}={v}' for k, v in table.items()] if src == 'cli' else []
        lines = [f'#define {k} {v}' for k, v in table.items()] if src == 'define' else []
        lines += [f'    .byte {names[-1]}' + (', OTHER' if company else ''), f'    ldi a, {names[-1]}', '    .byte $EE']
        case = Case(probe_isa(16, 'little', symbols=isa_syms or None), '\n'.join(lines) + '\n', defines=cli)
        out = acc.run(case)
        acc.transition()
        spec = {'expect': 'OK', 'image_hex': bytes([0x42] + ([3] if company else []) + [0xA0, 0x42, 0xEE]).hex(), 'symbol': name, 'source': src, 'chain': chain}
        msg = judge_expect(spec, [out])
        if msg:
            acc.violation([case], spec, f'symbol {name} (reads like a number) from {src} through {chain} intermediate symbols: {msg}', [out])
        acc.judge(clause='substituted', nontrivial_key=('numlike', name, src, chain, company))
    # a replacement value written as a number in the definition file (YAML / JSON integer, not a string) is that number's text
    for value, yaml, chain in itertools.product((34, 0, 7, -3, 255), (False, True), (0, 1)):
        ctr += 1
        if ctr % n != idx:
            continue
        syms = [{'name': 'NV', 'value': value}] + ([{'name': 'NW', 'value': 'NV'}] if chain else [])
        use = 'NW' if chain else 'NV'
        case = Case(probe_isa(16, 'little', symbols=syms), f'    .byte 1 + {use}\n    ldi a, {use}\n    .byte $EE\n', isa_yaml=yaml)
        out = acc.run(case)
        acc.transition()
        spec = {'expect': 'OK', 'image_hex': bytes([(1 + value) & 0xFF, 0xA0, value & 0xFF, 0xEE]).hex(), 'symbol_value': value, 'chain': chain}
        msg = judge_expect(spec, [out])
        if msg:
            acc.violation([case], spec, f'ISA symbol with the integer value {value} ({"YAML" if yaml else "JSON"}, chain {chain}): {msg}', [out],
                          finding='F36' if 'TypeError' in (out.detail or '') else None)
        acc.judge(clause='substituted', nontrivial_key=('intvalue', value, yaml, chain))
    # a symbol whose name contains the name of the symbol it expands to (BASE inside BASE_HI) is an ordinary chain, not a cycle
    for (outer, inner), src, depth in itertools.product((('BASE_HI', 'BASE'), ('BUF_LEN', 'LEN'), ('XBASEX', 'BASE'), ('AB', 'A'), ('LEN2', 'LEN')),
                                                        SOURCES, (1, 2)):
        ctr += 1
        if ctr % n != idx:
            continue
        table = {inner: '16', outer: f'{inner}+1'}
        top = outer
        if depth == 2:
            top = 'TOP_' + outer
            table[top] = f'{outer}*2'
        isa_syms = [{'name': k, 'value': v} for k, v in table.items()] if src == 'isa' else []
        cli = [f'{k}={v}' for k, v in table.items()] if src == 'cli' else []
        lines = [f'#define {k} {v}' for k, v in table.items()] if src == 'define' else []
        lines += [f'    .byte {top}, {inner}', '    .byte $EE']
        case = Case(probe_isa(16, 'little', symbols=isa_syms or None), '\n'.join(lines) + '\n', defines=cli)
        out = acc.run(case)
        acc.transition()
        want = 17 if depth == 1 else 16 + 1 * 2        # textual: 16+1*2
        spec = {'expect': 'OK', 'image_hex': bytes([want, 16, 0xEE]).hex(), 'symbols': table, 'source': src}
        msg = judge_expect(spec, [out])
        if msg:
            acc.violation([case], spec, f'{top} expands through {outer} to {inner}, whose name it contains ({src}): {msg}', [out])
        acc.judge(clause='substituted', nontrivial_key=('contains', outer, inner, src, depth))
    # a symbol whose name is the tail of a number literal on the same line ($1B / 1BH and the symbol B): the literal is left alone
    for (name, literal, lit_val), src, order in itertools.product((('B', '$1B', 0x1B), ('B', '1BH', 0x1B), ('D', '$2D', 0x2D), ('FF', '$0FF', 0xFF),
                                                                   ('ADD', '$0ADD & 255', 0xDD), ('H', '10H', 0x10), ('x7', '0x7', 7)),
                                                                  SOURCES, (0, 1)):
        ctr += 1
        if ctr % n != idx:
            continue
        table = {name: '11'}
        isa_syms = [{'name': k, 'value': v} for k, v in table.items()] if src == 'isa' else []
        cli = [f'{k}={v}' for k, v in table.items()] if src == 'cli' else []
        lines = [f'#define {k} {v}' for k, v in table.items()] if src == 'define' else []
        use = f'    .byte {literal}, {name}' if order == 0 else f'    .byte {name} + 1, {literal}'
        lines += [use, '    .byte $EE']
        case = Case(probe_isa(16, 'little', symbols=isa_syms or None), '\n'.join(lines) + '\n', defines=cli)
        out = acc.run(case)
        acc.transition()
        want = [lit_val, 11] if order == 0 else [12, lit_val]
        spec = {'expect': 'OK', 'image_hex': bytes(want + [0xEE]).hex(), 'symbol': name, 'literal': literal, 'source': src}
        msg = judge_expect(spec, [out])
        if msg:
            acc.violation([case], spec, f'symbol {name} next to the literal {literal} ({src}): {msg}', [out])
        acc.judge(clause='substituted', nontrivial_key=('tail', name, literal, src, order))
    # definitions and uses in different files: "already defined" is about the order in which lines are read, not about line numbers
    # (which start again in every file)
    for hdr_pad, use_pad, direction in itertools.product((0, 3, 9), (0, 2, 12), ('define in the included file', 'use in the included file')):
        ctr += 1
        if ctr % n != idx:
            continue
        defs = ['; pad'] * hdr_pad + ['#define HB 0x40', '#define HW HB+2']
        use = ['; pad'] * use_pad + ['    .byte HW, HB, XHB', '    .byte $EE']
        if direction == 'define in the included file':
            files = {'main.asm': 'XHB = 7\n#include "h.asm"\n' + '\n'.join(use) + '\n', 'h.asm': '\n'.join(defs) + '\n'}
        else:
            files = {'main.asm': 'XHB = 7\n' + '\n'.join(defs) + '\n#include "h.asm"\n', 'h.asm': '\n'.join(use) + '\n'}
        case = Case(probe_isa(16, 'little'), files)
        out = acc.run(case)
        acc.transition()
        spec = {'expect': 'OK', 'image_hex': bytes([0x42, 0x40, 7, 0xEE]).hex(), 'direction': direction, 'lines_before_define': hdr_pad, 'lines_before_use': use_pad}
        msg = judge_expect(spec, [out])
        if msg:
            acc.violation([case], spec, f'{direction} ({hdr_pad} lines before the #define, {use_pad} before the use): {msg}', [out])
        acc.judge(clause='substituted', nontrivial_key=('files', hdr_pad, use_pad, direction))
    for name, src in itertools.product(('b1', 'FACEH', 'LOOP'), SOURCES):
        ctr += 1
        if ctr % n != idx:
            continue
        isa_syms = [{'name': name, 'value': name}] if src == 'isa' else []
        cli = [f'{name}={name}'] if src == 'cli' else []
        lines = ([f'#define {name} {name}'] if src == 'define' else []) + [f'    .byte {name}', '    .byte $EE']
        case = Case(probe_isa(16, 'little', symbols=isa_syms or None), '\n'.join(lines) + '\n', defines=cli)
        out = acc.run(case)
        acc.transition()
        spec = {'expect': 'REJECT', 'why': f'{name} is defined as itself', 'source': src}
        msg = judge_expect(spec, [out])
        if msg:
            acc.violation([case], spec, f'symbol {name} defined as itself ({src}): {msg}', [out])
        acc.judge(clause='cycle-rejected', nontrivial_key=('selfref', name, src))
    return ctr


def judge(spec, outcomes):
    return judge_expect(spec, outcomes)
