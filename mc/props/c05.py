"""C05 - memory zones confine and sequence the code assigned to them.

Tiny address spaces (5 bits = 32 cells), zone layouts on a grid (predefined or created in source,
default or redefined GLOBAL), every program over a zone-switching alphabet up to the depth bound,
plus the product of ill-formed declarations.
"""
import itertools

from mc import refasm as R
from mc.histories import histories, run_program
from mc.probe_isa import probe_isa

ID = 'C05'
LEVEL = 'model_checking'

AS = 5
# (name, global redefinition or None, origin, za, zb, declared-in)
LAYOUTS = [
    ('default-global/nested', None, 0, (4, 9), (6, 7), 'isa'),
    ('default-global/overlapping', None, 0, (4, 9), (8, 13), 'source'),
    ('default-global/adjacent', None, 1, (4, 7), (8, 11), 'isa'),
    ('global 2..13/touching ends', (2, 13), 2, (2, 5), (10, 13), 'isa'),
    ('global 2..13/source zones', (2, 13), 3, (4, 9), (8, 13), 'source'),
    ('default-global/top of space', None, 0, (24, 31), (28, 31), 'source'),
    ('default-global/one shared address, one-address zone', None, 0, (4, 8), (8, 8), 'isa'),
    ('default-global/names differing only in letter case', None, 0, (4, 9), (12, 15), 'source', ('zq', 'ZQ')),
    ('default-global/a zone called global', None, 2, (4, 9), (12, 15), 'isa', ('za', 'global')),
]


def names(lay):
    """(name of the first zone, name of the second zone); zone names are case sensitive: za and ZA are two zones"""
    return lay[6] if len(lay) > 6 else ('za', 'zb')


def layout_params(lay):
    name, g, origin, za, zb, where = lay[:6]
    na, nb = names(lay)
    zones = []
    if g is not None:
        zones.append({'name': 'GLOBAL', 'start': g[0], 'end': g[1]})
    if where == 'isa':
        zones += [{'name': na, 'start': za[0], 'end': za[1]}, {'name': nb, 'start': zb[0], 'end': zb[1]}]
    return R.Params(address_size=AS, endian='little', origin=origin, zones=zones)


def prelude(lay):
    name, g, origin, za, zb, where = lay[:6]
    na, nb = names(lay)
    if where == 'source':
        return [('create_memzone', na, za[0], za[1]), ('create_memzone', nb, zb[0], zb[1])]
    return []


def sigma(lay, i):
    name, g, origin, za, zb, where = lay[:6]
    na, nb = names(lay)
    m = 0x41 + 3 * i
    return [
        ('memzone', na), ('memzone', nb), ('memzone', 'GLOBAL'),
        ('org', 1, na), ('org', 0, nb), ('org', za[1] - za[0], na), ('org', 6, None), ('org', 1, 'GLOBAL'),
        ('org', -1, na),          # a negative zone-relative origin: below the zone, mostly still inside GLOBAL
        ('data', 1, [m]), ('data', 1, [m, m + 1, m + 2]),
        ('zerountil', za[1]), ('zerountil', za[1] + 1),
        ('align', 4),
        ('include', f'inc{i}.asm'),
        # a zone / origin directive with a label in front of it on the same line is still that directive
        ('sameline', ('label', f'L{i}'), ('memzone', na)), ('sameline', ('label', f'M{i}'), ('org', 1, nb)),
        ('sameline', ('label', f'N{i}'), ('org', 6, None)),
        ('m2', m & 0x7F, 1),          # a macro of two 12-bit steps: 4 bytes, each step padded on its own
    ]


NSYM = 19


def included(i, lay=None):
    m = 0x41 + 3 * i
    return [('data', 1, [m + 0x80]), ('memzone', names(lay)[1] if lay else 'zb'), ('data', 1, [m + 0x81])]


def meta(tier):
    q = tier == 'quick'
    return {
        'rule': 'every program over the 19-symbol zone alphabet (incl. zone / origin directives with a label in front of them, a macro of two sub-byte steps) up to the depth bound under 9 zone layouts (predefined / created in '
                'source, default / redefined GLOBAL, nested / overlapping / adjacent zones, zones sharing exactly one address, a one-address zone, zone names differing only in letter case, a zone called global, zones at the top of a 5-bit address '
                'space), plus every program [zone directive] byte / #mute / zone directive [bytes] / #unmute / [zone directive] bytes (a zone selected in a muted stretch stays selected), plus every ill-formed declaration from the grid; expected: image of the reference layout, or rejection '
                'iff a byte would lie outside its selected zone or GLOBAL (or two lines collide); non-trivial = program that '
                'switches zone at least once and emits bytes in two zones, or that is rejected for leaving a zone; '
                'states = distinct reference cursor/zone states',
        'bounds': {'address_bits': AS, 'layouts': [l[0] for l in LAYOUTS], 'depth': 3 if q else 4, 'depth_first_layouts': 4 if q else 5,
                   'alphabet': [R.render_stmt(s) for s in sigma(LAYOUTS[0], 0)],
                   'declaration_grid': 'start,end in {-1..,0,1,2,5,13,14,31,32,33} x {in source, in ISA} x names {new, duplicate, GLOBAL}'},
        'assumptions': ['an origin / alignment that moves outside the selected zone without any byte being placed there is not judged '
                        '(the statement only demands rejection when a byte would lie outside)',
                        'a predefined (ISA) zone outside a redefined GLOBAL is not judged (the statement names source-declared zones)'],
        'floors': {'evaluations': 1000, 'nontrivial': 100, 'statuses': ['OK', 'REJECT'],
                   'clauses': ['accepted', 'rejected-outside-zone', 'declaration-rejected', 'declaration-accepted', 'muted-selection']},
        'nshards': 64,
    }


def shard(acc, tier, idx, n):
    q = tier == 'quick'
    for li, lay in enumerate(LAYOUTS):
        params = layout_params(lay)
        isa = probe_isa(AS, 'little', origin=params.origin or None, zones=params.zones or None)
        pre = prelude(lay)
        depth = (4 if q else 5) if li < 2 else (3 if q else 4)

        def build(h):
            files = {}
            stmts = list(pre)
            for i, j in enumerate(h):
                s = sigma(lay, i)[j]
                stmts.append(s)
                if s[0] == 'include':
                    files[s[1]] = included(i, lay)
            stmts.append(('data', 1, [0x3F]))
            files['main.asm'] = stmts
            return files

        def ok(h):
            return R.assemble(params, build(h)).status != 'REJECT'

        for h in histories(list(range(NSYM)), depth, idx, n, prefix_ok=ok):
            files = build(h)

            def clause(r):
                if r.status == 'REJECT':
                    return 'rejected-outside-zone' if 'outside zone' in r.reason else 'rejected'
                return 'accepted'

            def nt(r):
                if r.status == 'REJECT':
                    return (li, h) if 'outside zone' in r.reason else None
                zs = {l.zone for l in r.lines if l.size}
                return (li, h) if len(zs) >= 2 else None

            ref, out, msg = run_program(acc, params, isa, files, clause=clause, nontrivial=nt, sample=(len(h) == depth))
            acc.state((li, tuple(sorted(ref.mem)), ref.state_key[2] if ref.state_key else None))
    # ---- zone selected inside a muted stretch: it stays selected for what follows, muted or not ---------------------
    ctr = 0
    for li, lay in enumerate(LAYOUTS[:4] if q else LAYOUTS):
        params = layout_params(lay)
        isa = probe_isa(AS, 'little', origin=params.origin or None, zones=params.zones or None)
        pre = prelude(lay)
        zsyms = list(range(9)) + [15, 16]
        for a, b, c, d in itertools.product([None] + zsyms[:3], zsyms, (None, 9, 10, 11), (None, 0, 1, 6)):
            ctr += 1
            if ctr % n != idx:
                continue
            stmts = list(pre)
            if a is not None:
                stmts.append(sigma(lay, 0)[a])
            stmts += [('data', 1, [0x21]), ('mute',), sigma(lay, 1)[b]]
            if c is not None:
                stmts.append(sigma(lay, 2)[c])
            stmts.append(('unmute',))
            if d is not None:
                stmts.append(sigma(lay, 3)[d])
            stmts += [('data', 1, [0x22, 0x23]), ('data', 1, [0x3F])]

            def clause(r):
                if r.status == 'REJECT':
                    return 'rejected-outside-zone' if 'outside zone' in r.reason else 'rejected'
                return 'muted-selection'
            run_program(acc, params, isa, {'main.asm': stmts}, clause=clause, nontrivial=('muted', li, a, b, c, d), sample=(ctr % 97 == 0))
    # ---- declarations ---------------------------------------------------------------------------
    grid = [-1, 0, 1, 2, 5, 13, 14, 31, 32, 33]
    ctr = 0
    for g in (None, (2, 13)):
        gz = [{'name': 'GLOBAL', 'start': g[0], 'end': g[1]}] if g else []
        for s, e in itertools.product(grid, repeat=2):
            for name, extra in (('zn', []), ('zq', [{'name': 'zq', 'start': 4, 'end': 5}]), ('GLOBAL', [])):
                ctr += 1
                if ctr % n != idx:
                    continue
                # (a) declared in source
                if s >= 0 and e >= 0:       # #create_memzone takes unsigned literals only
                    params = R.Params(address_size=AS, origin=g[0] if g else 0, zones=gz + extra)
                    isa = probe_isa(AS, 'little', origin=params.origin or None, zones=params.zones or None)
                    files = {'main.asm': [('create_memzone', name, s, e), ('data', 1, [0x3F])]}
                    run_program(acc, params, isa, files,
                                clause=lambda r: 'declaration-rejected' if r.status == 'REJECT' else 'declaration-accepted',
                                nontrivial=('src', g, s, e, name), sample=False)
                # (b) declared in the ISA definition: inverted / beyond the address width must be rejected
                if name == 'zn':
                    zones = gz + [{'name': 'zn', 'start': s, 'end': e}]
                    isa = probe_isa(AS, 'little', origin=g[0] if g else None, zones=zones)
                    from mc.world import Case
                    case = Case(isa, '    .byte 63\n')
                    out = acc.run(case)
                    acc.transition()
                    bad = s > e or e > (1 << AS) - 1
                    inside = (g is None or (s >= g[0] and e <= g[1])) and s >= 0
                    if bad:
                        spec = {'expect': 'REJECT', 'why': 'predefined zone inverted or beyond the address width'}
                    elif inside:
                        spec = {'expect': 'OK', 'image_hex': ('00' * (g[0] if g else 0)) + '3f'}
                    else:
                        acc.dc('predefined zone outside GLOBAL / negative start')
                        continue
                    from mc.judges import judge_expect
                    msg = judge_expect(spec, [out])
                    if msg:
                        acc.violation([case], spec, f'predefined zone {s}..{e}: {msg}', [out])
                    acc.judge(clause='declaration-rejected' if bad else 'declaration-accepted', nontrivial_key=('isa', g, s, e))


def judge(spec, outcomes):
    from mc.judges import judge_expect
    return judge_expect(spec, outcomes)
