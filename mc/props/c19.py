"""C19 - malformed ISA definitions and unmet version requirements are rejected.

Fault enumeration: a catalogue of single faults applied at every applicable site of a set of
well-formed base definitions (generated ones and the definitions shipped with the repository);
the grid of min_version values; the grid of #require lines.  Base definitions must load.
"""
import copy
import glob
import itertools
import os

from mc import world
from mc.judges import judge_expect
from mc.probe_isa import probe_isa
from mc.world import Case
from mc.props import c10

ID = 'C19'
LEVEL = 'fault_enumeration'

KEYWORDS = ['org', 'memzone', 'align', 'fill', 'zero', 'zerountil', 'byte', '2byte', '4byte', '8byte', 'cstr', 'asciiz',
            'include', 'require', 'create_memzone', 'define', 'if', 'elif', 'else', 'endif', 'ifdef', 'ifndef', 'mute', 'unmute', 'emit',
            'LSB', 'BYTE0', 'BYTE3']
RUNNING = '0.4.3b1'
FLOOR = '0.3.0'


VERSION_SHAPES = [
    {},
    {'zones': [{'name': 'GLOBAL', 'start': 0, 'end': 0xFFF}]},
    {'zones': [{'name': 'zz', 'start': 0x10, 'end': 0x1F}]},
    {'zones': [{'name': 'zz', 'start': 0x10, 'end': 0x1F}, {'name': 'GLOBAL', 'start': 0, 'end': 0xFFFF}],
     'constants': [{'name': 'KC', 'value': 3}]},
    {'constants': [{'name': 'KC', 'value': 3}], 'symbols': [{'name': 'SY', 'value': '1'}]},
]


def vkey(v):
    """own ordering of x.y.z[pre]: integer triple, then pre-release rank (a < b < none)"""
    import re
    m = re.fullmatch(r'(\d+)\.(\d+)\.(\d+)(?:(a|b)(\d+))?', v)
    x, y, z = int(m.group(1)), int(m.group(2)), int(m.group(3))
    if m.group(4) is None:
        pre = (2, 0)
    else:
        pre = (0 if m.group(4) == 'a' else 1, int(m.group(5)))
    return (x, y, z) + pre


def base_definitions():
    """-> list of (name, isa dict, needs_yaml)"""
    out = []
    zones = [{'name': 'zz', 'start': 0x10, 'end': 0x1F}, {'name': 'GLOBAL', 'start': 0, 'end': 0xFFF}]
    out.append(('probe', probe_isa(12, 'little', zones=zones, data=[{'name': 'blk', 'address': 0x40, 'value': 1, 'size': 2}],
                                   constants=[{'name': 'KC', 'value': 3}], symbols=[{'name': 'SY', 'value': '1'}],
                                   name='probe', version='1.2.3'), False))
    m = copy.deepcopy(c10.BASE_ISA)
    m['macros'] = {'mac': [{'operands': {'count': 2, 'operand_sets': {'list': ['reg', 'imm']}}, 'instructions': ['ldi @REG(0), @ARG(1)', 'nop']}],
                   'mac2': [{'instructions': ['nop']}]}
    m['instructions']['spc'] = {'bytecode': {'value': 0xB, 'size': 4}, 'operands': {'count': 2, 'specific_operands': {
        'one': {'list': {'r': {'type': 'register', 'register': 'sp', 'bytecode': {'value': 3, 'size': 4}},
                         'n': {'type': 'numeric_bytecode', 'bytecode': {'size': 4, 'min': 1, 'max': 9}}}}}}}
    m['instructions']['var'] = {'bytecode': {'value': 0xD, 'size': 4}, 'operands': {'count': 1, 'operand_sets': {'list': ['reg']}},
                                'variants': [{'bytecode': {'value': 0xE, 'size': 4}, 'operands': {'count': 1, 'operand_sets': {'list': ['imm']}}}]}
    # both an operand-set list and an explicitly listed combination
    m['instructions']['bth'] = {'bytecode': {'value': 0xC, 'size': 4}, 'operands': {'count': 2, 'operand_sets': {'list': ['reg', 'imm']},
                                'specific_operands': {'sp_n': {'list': {
                                    'r': {'type': 'register', 'register': 'sp', 'bytecode': {'value': 3, 'size': 4}},
                                    'n': {'type': 'numeric', 'bytecode': {'value': 2, 'size': 4}, 'argument': {'size': 8, 'byte_align': True}}}}}}}
    m['operand_sets']['xr'] = {'operand_values': {
        'ir': {'type': 'indirect_register', 'register': 'sp', 'bytecode': {'value': 1, 'size': 2}},
        'xi': {'type': 'indexed_register', 'register': 'a', 'bytecode': {'value': 2, 'size': 2},
               'index_operands': {'i': {'type': 'numeric', 'argument': {'size': 8, 'byte_align': True}}}},
        'nb': {'type': 'numeric_bytecode', 'bytecode': {'size': 3, 'min': 0, 'max': 7}},
        'xn': {'type': 'indexed_register', 'register': 'b', 'bytecode': {'value': 3, 'size': 2},
               'index_operands': {'ni': {'type': 'numeric_bytecode', 'bytecode': {'size': 3, 'min': -4, 'max': 3}}}}}}
    out.append(('macros', m, False))
    return out


def repo_definitions():
    import yaml
    out = []
    paths = sorted(glob.glob(os.path.join(world.REPO, 'examples', '*', '*.yaml')) +
                   glob.glob(os.path.join(world.REPO, 'examples', '*.yaml')))
    for p in paths:
        with open(p) as f:
            out.append((os.path.relpath(p, world.REPO), yaml.safe_load(f), True))
    return out


# ---- fault catalogue: each yields (description, mutated isa) ---------------------------------------------------

def faults(isa, limit=None):
    def clone():
        return copy.deepcopy(isa)

    d = clone(); del d['general']; yield 'delete general', d
    d = clone(); del d['instructions']; yield 'delete instructions', d
    mnems = list(isa['instructions'])[:limit]
    for mn in mnems:
        for kw in KEYWORDS:
            for form in (kw, kw.upper(), kw.lower()):
                if form.lower() != form and form.upper() != form:
                    continue
                d = clone()
                d['instructions'] = {(form if k == mn else k): v for k, v in d['instructions'].items()}
                yield f'mnemonic {mn} := keyword {form}', d
            if limit:
                break
    for mac in list((isa.get('macros') or {}))[:limit]:
        for kw in KEYWORDS[:6] + ['LSB']:
            d = clone()
            d['macros'] = {(kw if k == mac else k): v for k, v in d['macros'].items()}
            yield f'macro {mac} := keyword {kw}', d
        for mn in mnems[:3]:
            d = clone()
            d['macros'] = {(mn if k == mac else k): v for k, v in d['macros'].items()}
            yield f'macro {mac} := instruction name {mn}', d
            d = clone()
            d['macros'] = {(mn.upper() if k == mac else k): v for k, v in d['macros'].items()}
            yield f'macro {mac} := instruction name {mn.upper()}', d
    regs = (isa['general'].get('registers') or [])
    if regs and any('register' in ocfg for sdef in isa.get('operand_sets', {}).values() for ocfg in sdef['operand_values'].values()):
        # no register declared at all while operands still name one
        d = clone(); d['general']['registers'] = []; yield 'registers := [] (operands still name registers)', d
        d = clone(); del d['general']['registers']; yield 'registers section deleted (operands still name registers)', d
        d = clone(); d['general']['registers'] = None; yield 'registers := null (operands still name registers)', d
    for i, r in enumerate(regs[:limit]):
        for kw in KEYWORDS:
            d = clone()
            d['general']['registers'][i] = kw
            # keep register operands consistent so that the only fault is the keyword
            _rename_register(d, r, kw)
            yield f'register {r} := keyword {kw}', d
            if limit:
                break

    def variants_of(cfg):
        vs = [cfg] if 'bytecode' in cfg else []
        return vs + list(cfg.get('variants', []))

    sites = 0
    for mn in mnems:
        for vi, v in enumerate(variants_of(isa['instructions'][mn])):
            ops = v.get('operands')
            if not ops:
                continue
            if 'operand_sets' in ops:
                lst = ops['operand_sets']['list']
                for si in range(len(lst)):
                    d = clone()
                    variants_of(d['instructions'][mn])[vi]['operands']['operand_sets']['list'][si] = 'no_such_set'
                    yield f'{mn} variant {vi}: operand set {si} := undeclared', d
                for delta in (-1, 1):
                    d = clone()
                    variants_of(d['instructions'][mn])[vi]['operands']['count'] = len(lst) + delta
                    yield f'{mn} variant {vi}: count := len{delta:+d}', d
            elif 'specific_operands' in ops:
                n = len(next(iter(ops['specific_operands'].values()))['list'])
                for delta in (-1, 1):
                    d = clone()
                    variants_of(d['instructions'][mn])[vi]['operands']['count'] = n + delta
                    yield f'{mn} variant {vi}: count := len{delta:+d} (specific operands only)', d
            # every explicitly listed combination must list exactly `count` operands, whatever else the variant declares
            for cname, comb in (ops.get('specific_operands') or {}).items():
                keys = list(comb['list'])
                if len(keys) > 1:
                    d = clone()
                    del variants_of(d['instructions'][mn])[vi]['operands']['specific_operands'][cname]['list'][keys[-1]]
                    yield f'{mn} variant {vi}: combination {cname} lists one operand too few', d
                d = clone()
                lst = variants_of(d['instructions'][mn])[vi]['operands']['specific_operands'][cname]['list']
                lst['extra_q'] = copy.deepcopy(lst[keys[0]])
                yield f'{mn} variant {vi}: combination {cname} lists one operand too many', d
            sites += 1
    for mac, vs in list((isa.get('macros') or {}).items())[:limit]:
        for vi, v in enumerate(vs):
            ops = v.get('operands')
            if ops and 'operand_sets' in ops:
                d = clone()
                d['macros'][mac][vi]['operands']['operand_sets']['list'][0] = 'no_such_set'
                yield f'macro {mac} variant {vi}: operand set := undeclared', d
                d = clone()
                d['macros'][mac][vi]['operands']['count'] = len(ops['operand_sets']['list']) + 1
                yield f'macro {mac} variant {vi}: count := len+1', d
    # register operands naming an undeclared register; inverted numeric_bytecode ranges
    nreg = 0
    for sname, sdef in list(isa.get('operand_sets', {}).items()):
        for oname, ocfg in sdef['operand_values'].items():
            if 'register' in ocfg and (limit is None or nreg < limit):
                nreg += 1
                d = clone()
                d['operand_sets'][sname]['operand_values'][oname]['register'] = 'nosuchreg'
                yield f'operand {sname}.{oname}: register := undeclared', d
    # inverted numeric_bytecode ranges wherever such an operand is declared: operand sets, listed combinations, index operands
    def nbc_paths(node, path=()):
        if isinstance(node, dict):
            if node.get('type') == 'numeric_bytecode' and isinstance(node.get('bytecode'), dict) and 'max' in node['bytecode']:
                yield path
            for k, v in node.items():
                yield from nbc_paths(v, path + (k,))
        elif isinstance(node, list):
            for k, v in enumerate(node):
                yield from nbc_paths(v, path + (k,))
    for path in list(nbc_paths(isa)):
        d = clone()
        node = d
        for k in path:
            node = node[k]
        bc = node['bytecode']
        bc['min'], bc['max'] = bc['max'] + 1, bc['max']
        yield f'numeric_bytecode at {"/".join(str(k) for k in path)}: max < min', d
    bits = isa['general']['address_size']
    for zi, z in enumerate(((isa.get('predefined') or {}).get('memory_zones') or [])):
        for what, patch in (('end := 2^bits', {'end': 1 << bits}), ('start := end+1', {'start': z['end'] + 1}),
                            ('start := -1', {'start': -1}), ('end := 2^bits+5', {'end': (1 << bits) + 5})):
            d = clone()
            d['predefined']['memory_zones'][zi].update(patch)
            yield f'zone {z["name"]}: {what}', d


def _rename_register(d, old, new):
    for sdef in d.get('operand_sets', {}).values():
        for ocfg in sdef['operand_values'].values():
            if ocfg.get('register') == old:
                ocfg['register'] = new
            for icfg in (ocfg.get('index_operands') or {}).values():
                if icfg.get('register') == old:
                    icfg['register'] = new
    for cfg in d.get('instructions', {}).values():
        for v in ([cfg] + list(cfg.get('variants', []))):
            for spec in ((v.get('operands') or {}).get('specific_operands') or {}).values():
                for ocfg in spec['list'].values():
                    if ocfg.get('register') == old:
                        ocfg['register'] = new


def meta(tier):
    return {
        'rule': '(a) base definitions (2 generated with every section, the 9 shipped with the repository) must load; (b) every fault of the '
                'catalogue at every applicable site of the generated bases (first sites only for the shipped ones): delete general / '
                'instructions, mnemonic / macro / register := keyword (each keyword, lower and upper case for mnemonics), macro := '
                'instruction name, undeclared operand set (instruction and macro), undeclared register, no register declared at all (empty / deleted / null section), count := len+-1, an explicitly listed combination with one operand too few / too many, inverted '
                'numeric_bytecode range, zone end := 2^bits, start := end+1, start := -1; (c) min_version := x.y.z[pre] over '
                'x in {0,1}, y,z in {0,2,3,4,5,9,10,30}, pre in {none,a1,b1,b2}, the rest of the definition rotating over 5 shapes (nothing else, a redefined GLOBAL zone, another zone, zones and constants, constants and symbols); (d) #require "<name> <op> <v>" over 3 language names (with hyphen, period, underscore) x ISA version x '
                '5 operators x an 8-version pool whose numeric and lexical orders differ x {matching, other} name; '
                '(e) every program of two or three #require lines drawn from 8 (4 satisfied, 4 not; same or another language) in one file or split between the main file and an included one, accepted iff every line is satisfied; '
                'non-trivial = every fault / grid point (each is a distinct definition or line)',
        'bounds': {'keywords': KEYWORDS, 'running_version': RUNNING, 'format_floor': FLOOR},
        'assumptions': ['version ordering: integer triple, then pre-release rank a < b < release (computed here, not by packaging)',
                        'not judged: register names equal to a keyword in a different letter case'],
        'floors': {'evaluations': 500, 'nontrivial': 500, 'statuses': ['OK', 'REJECT'],
                   'clauses': ['base-loads', 'fault-rejected', 'min-version', 'require', 'several-requirements']},
        'nshards': 64, 'xcheck': 12,
    }


def load(acc, isa, yaml, expect_ok, what, clause, src='; nothing\n    .byte 1\n', isa_file=None):
    case = Case(isa, src, isa_yaml=yaml, isa_file=isa_file)
    out = acc.run(case)
    spec = {'expect': 'OK', 'image_hex': '01'} if expect_ok else {'expect': 'REJECT', 'why': what}
    if expect_ok and isa.get('general', {}).get('origin'):
        spec = {'expect_status': 'OK'}
    msg = judge(spec, [out])
    if msg:
        acc.violation([case], spec, f'{what}: {msg}', [out])
    acc.judge(clause=clause, nontrivial_distinct=True)
    return out


def shard(acc, tier, idx, n):
    q = tier == 'quick'
    ctr = 0
    bases = base_definitions()
    repo = repo_definitions()
    for name, isa, yaml in bases + repo:
        ctr += 1
        if ctr % n == idx:
            case = Case(isa, '; nothing\n', isa_yaml=yaml)
            out = acc.run(case)
            spec = {'expect_status': 'OK'}
            msg = judge(spec, [out])
            if msg:
                acc.violation([case], spec, f'well-formed definition {name} rejected: {msg}', [out])
            acc.judge(clause='base-loads', nontrivial_distinct=True)
            acc.sample({'base_definition': name, 'loads': out.status})
    for name, isa, yaml in bases:
        for what, bad in faults(isa):
            ctr += 1
            if ctr % n != idx:
                continue
            load(acc, bad, yaml, False, f'{name}: {what}', 'fault-rejected')
            if ctr % 53 == 0:
                acc.sample({'base': name, 'fault': what})
    for name, isa, yaml in repo:
        for what, bad in faults(isa, limit=2 if q else 6):
            ctr += 1
            if ctr % n != idx:
                continue
            load(acc, bad, yaml, False, f'{name}: {what}', 'fault-rejected')
    # ---- (c) min_version -------------------------------------------------------------------------------------
    nums = [0, 2, 3, 4, 5, 9, 10, 30]
    for x, y, z, pre in itertools.product((0, 1), nums, nums, ('', 'a1', 'b1', 'b2')):
        ctr += 1
        if ctr % n != idx:
            continue
        v = f'{x}.{y}.{z}{pre}'
        # the gate holds whatever else the definition declares: every other section of the definition rotates through the grid
        shape = VERSION_SHAPES[ctr % len(VERSION_SHAPES)]
        isa = probe_isa(16, 'little', **copy.deepcopy(shape))
        isa['general']['min_version'] = v
        ok = vkey(FLOOR) <= vkey(v) <= vkey(RUNNING)
        load(acc, isa, False, ok, f'min_version {v} (running {RUNNING}, floor {FLOOR})', 'min-version')
    # ---- (d) #require ----------------------------------------------------------------------------------------------
    pool = ['0.9.0', '0.10.0', '1.2.3', '1.2.10', '1.10.0', '2.0.0', '1.2.3b1', '10.0.0']
    names = [('lang-x', 'lang-y'), ('acme.cpu16', 'acme.cpu17'), ('my_cpu.v2-b', 'my_cpu')]     # (the language, another language)
    for isa_v, op, req_v, name_ok, (lang_ok, lang_other) in itertools.product(pool, ('==', '>=', '<=', '>', '<'), pool, (True, False), names):
        ctr += 1
        if ctr % n != idx:
            continue
        isa = probe_isa(16, 'little', name=lang_ok, version=isa_v)
        a, b = vkey(isa_v), vkey(req_v)
        sat = {'==': a == b, '>=': a >= b, '<=': a <= b, '>': a > b, '<': a < b}[op]
        lang = lang_ok if name_ok else lang_other
        src = f'#require "{lang} {op} {req_v}"\n    .byte 1\n'
        load(acc, isa, False, sat and name_ok, f'#require "{lang} {op} {req_v}" against ISA version {isa_v}', 'require', src=src)
    for name_ok, (lang_ok, lang_other) in itertools.product((True, False), names):
        ctr += 1
        if ctr % n == idx:
            isa = probe_isa(16, 'little', name=lang_ok, version='1.2.3')
            src = f'#require "{lang_ok if name_ok else lang_other}"\n    .byte 1\n'
            load(acc, isa, False, name_ok, 'bare #require', 'require', src=src)
    ctr = file_named_languages(acc, idx, n, ctr)
    several_requirements(acc, idx, n, ctr, q)


def several_requirements(acc, idx, n, ctr0, q):
    """Programs with two or three #require lines, in one file or spread over the main file and an included one: accepted iff every
    line on its own is satisfied (each line is honoured, whatever other lines say about the same language)."""
    ctr = ctr0
    for lang, other in (('lang-x', 'lang-y'), ('acme.cpu16', 'acme.cpu1')):
        lines = [(f'#require "{lang} >= 1.0.0"', True), (f'#require "{lang} < 2.0.0"', True), (f'#require "{lang}"', True),
                 (f'#require "{lang} == 1.5.0"', True), (f'#require "{lang} < 1.2.0"', False), (f'#require "{lang} > 1.5.0"', False),
                 (f'#require "{other}"', False), (f'#require "{other} >= 1.0.0"', False)]
        isa = probe_isa(16, 'little', name=lang, version='1.5.0')
        for k in (2, 3):
            for combo in itertools.product(lines, repeat=k):
                ok = all(sat for _, sat in combo)
                texts = [t for t, _ in combo]
                layouts = [('one file', {'main.asm': '\n'.join(texts) + '\n    .byte 1\n'}),
                           ('last line in an included file', {'main.asm': '\n'.join(texts[:-1]) + '\n#include "req.asm"\n    .byte 1\n',
                                                              'req.asm': texts[-1] + '\n'}),
                           ('first lines in an included file', {'main.asm': '#include "req.asm"\n' + texts[-1] + '\n    .byte 1\n',
                                                                'req.asm': '\n'.join(texts[:-1]) + '\n'})]
                if k == 3:
                    layouts = layouts[:1] if q else layouts[:2]
                for lname, files in layouts:
                    ctr += 1
                    if ctr % n != idx:
                        continue
                    load(acc, isa, False, ok, f'{" / ".join(texts)} ({lname}) against {lang} 1.5.0', 'several-requirements', src=files)
    return ctr


def file_named_languages(acc, idx, n, ctr0):
    """A definition without identifier.name is called after its file (base name without the extension, dots and all)."""
    ctr = ctr0
    for fname, yaml in (('plain.json', False), ('acme.cpu8.json', False), ('my.isa.v2.yaml', True), ('under_score-x.yaml', True)):
        base = fname.rsplit('.', 1)[0]
        for lang in dict.fromkeys([base, base.split('.')[0], base + '.x', 'other']):
            for op, req_v in ((None, None), ('>=', '1.0.0'), ('==', '1.2.0'), ('>', '1.2.0'), ('<', '1.10.0'), ('<=', '1.1.9')):
                ctr += 1
                if ctr % n != idx:
                    continue
                isa = probe_isa(16, 'little', version='1.2.0')
                isa['general']['identifier'] = {'version': '1.2.0'}           # no name: the file name is the language
                sat = True if op is None else {'>=': True, '==': True, '>': False, '<': True, '<=': False}[op]
                line = f'#require "{lang}"' if op is None else f'#require "{lang} {op} {req_v}"'
                load(acc, isa, yaml, sat and lang == base, f'{line} with the definition in {fname} (no identifier name)', 'require',
                     src=line + '\n    .byte 1\n', isa_file=fname)
    return ctr


def judge(spec, outcomes):
    if 'expect_status' in spec:
        o = outcomes[0]
        return None if o.status == 'OK' else f'expected the definition to load, got {o.status}: {o.detail}'
    return judge_expect(spec, outcomes)
