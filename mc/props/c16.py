"""C16 - all output formats describe the same memory contents as the binary image.

For every accepted program history (sparse maps, long lines, zones, alignment gaps, muted regions,
zero-length lines, an included file, a predefined data block) under several address widths: the
exact address->byte map is recovered from two images (fill 0x00 and 0xFF) and every format is
decoded by mc/formats.py and must give the same map; the listing is also checked row by row.
"""
import itertools
from mc import formats as F
from mc import refasm as R
from mc.histories import histories
from mc.probe_isa import probe_isa
from mc.world import Case

ID = 'C16'
LEVEL = 'model_checking'

FORMATS = ['listing', 'hex', 'intel_hex', 'minhex']


def configs():
    out = []
    for bits in (8, 10, 12, 16, 24, 32):          # 10: an address width that is not a whole number of hex digits
        top = (1 << bits) - 1
        zs = min(0x40, top - 0x3F)
        zones = [{'name': 'zz', 'start': zs, 'end': zs + 0x1F}]
        data = [{'name': 'blk', 'address': 0x30, 'value': 0x77, 'size': 2}] if bits in (12, 24) else []
        if bits == 24:
            data.append({'name': 'blk2', 'address': 0x38, 'value': 0x66, 'size': 3})       # a second block, different in value and size
        far = {8: 0xB0, 10: top - 0x0F, 12: top - 0x0F, 16: top - 0x0F, 24: 0x10010, 32: 0x10010}[bits]     # >16 bits: just beyond 64K (extended records)
        out.append((bits, R.Params(address_size=bits, endian='little', zones=zones, data=data), far))
    return out


def sigma(i, far):
    m = 0x21 + 9 * i
    return [
        ('data', 1, [m]),
        ('data', 1, [m + k for k in range(8)]),
        ('org', 0x10 + 0x18 * i, None),
        ('org', far, None),
        ('memzone', 'zz'),
        ('align', 8),
        ('mute',),
        ('unmute',),
        ('fill', 0, 1),
        ('include', f'inc{i}.asm'),
        ('label', f'lb{i}'),
        ('data', 2, [0, 0xFFFF]),
        ('joined', ('ldi', 'a', m & 0x7F), ('nop',), ('ldi', 'b', (m + 1) & 0x7F)),        # three statements on one source line
    ]


NSYM = 13


def meta(tier):
    q = tier == 'quick'
    return {
        'rule': 'programs: every history over the 13-symbol alphabet (three statements on one line, 1-byte line, 8-byte line longer than a listing row, near and far '
                'origins, zone switch, alignment gap, #mute/#unmute, zero-length fill, included file, label, a line emitting 00 and ff '
                'bytes) up to the depth bound that the reference accepts, under address widths 8/10/12/16/24/32 (two of them with '
                'predefined data blocks, one with two different blocks); per program 6 executions: two images (fill 00 / ff) giving the exact address->byte map (and a length that ends at the highest described address), and '
                'the four formats, each decoded independently, plus two images of the window that starts inside the first multi-byte statement (-s), which must hold the same bytes from there on, and the listing / hex dump / Intel HEX requested together with that window, which must still agree with the image from the window start on; one more run requests a format (rotating) with --no-binary, which must describe the same memory; the listing rows are also compared with the reference lines '
                '(each statement once, its address, its bytes, nothing for muted lines); non-trivial = program with a gap, a muted '
                'byte or a line longer than 6 bytes; plus an origin of zero followed by 6 kinds of stretch that leave address zero empty x 3 tails; plus (16-bit) every history up to depth 5 (thorough 6) over {#mute, #unmute, a byte, an include of a plain file, of a file that unmutes, of a file that mutes}: '
                'mutes are counted across include boundaries in both directions; plus the repository\'s 26 example programs under their own definitions (formats vs image, with and without a window); states = distinct memory maps',
        'bounds': {'alphabet': [R.render_stmt(s) for s in sigma(0, 0xFFF0)], 'depth': 3 if q else 4, 'address_widths': [8, 12, 16, 24, 32],
                   'formats': FORMATS},
        'assumptions': ['the compact format cannot state the address of its first data line unless an origin precedes it: the decoder '
                        'is told the lowest emitted address in that case',
                        'decoders: mc/formats.py, written from the format layouts'],
        'floors': {'evaluations': 1000, 'nontrivial': 100, 'statuses': ['OK'], 'clauses': ['listing', 'hex', 'intel_hex', 'minhex', 'listing-rows']},
        'nshards': 64, 'xcheck': 16,
    }


def truth_from_images(a, b):
    if a is None or b is None or len(a) != len(b):
        return None
    return {i: x for i, (x, y) in enumerate(zip(a, b)) if x == y}


def check_formats(spec, outs):
    """outs: [image fill 00, image fill ff, listing, hex, intel_hex, minhex] -> message or None"""
    for o in outs:
        if o.status != 'OK':
            return f'assembly failed in one of the six runs: {o.status} {o.detail}'
    mem = truth_from_images(outs[0].image, outs[1].image)
    if mem is None:
        return 'the two images differ in length'
    if spec.get('image_length') is not None and len(outs[0].image) != spec['image_length']:
        return f'the image is {len(outs[0].image)} bytes long, the formats describe {spec["image_length"]} bytes of memory'
    want_rows = spec.get('rows')
    if spec.get('window_start') is not None and len(outs) >= 8:
        # the image of a window that starts inside a multi-byte statement describes the same bytes from there on
        n0 = spec['window_start']
        memw = truth_from_images(outs[6].image, outs[7].image)
        if memw is None:
            return f'the two images for -s {n0} differ in length'
        memw = {a + n0: b for a, b in memw.items()}
        want = {a: b for a, b in mem.items() if a >= n0}
        if memw != want:
            bad = sorted(a for a in set(memw) | set(want) if memw.get(a) != want.get(a))[:4]
            return (f'the image for -s {n0} and the formats describe different memory at {[hex(a) for a in bad]}: image '
                    f'{[memw.get(a) for a in bad]}, formats and full image {[want.get(a) for a in bad]}')
    if spec.get('window_start') is not None and len(outs) >= 12:
        # ... and the formats requested together with that window still describe, from the window start on, what the image holds
        # (what they say about addresses below the window is not judged)
        n0 = spec['window_start']
        want = {a: b for a, b in mem.items() if a >= n0}
        for fmt, o in zip(FORMATS, outs[8:12]):
            try:
                if fmt == 'listing':
                    got, _ = F.decode_listing(o.pretty)
                elif fmt == 'hex':
                    got = F.decode_hex_dump(o.pretty)
                elif fmt == 'intel_hex':
                    got = F.decode_intel_hex(o.pretty)
                else:
                    continue        # the compact format does not state where its first line lies
            except F.FormatError as e:
                return f'{fmt} with -s {n0}: {e}'
            got = {a: b for a, b in got.items() if a >= n0}
            if got != want:
                bad = sorted(a for a in set(got) | set(want) if got.get(a) != want.get(a))[:4]
                return (f'{fmt} requested with -s {n0} describes different memory than the image at {[hex(a) for a in bad]}: '
                        f'{fmt} {[got.get(a) for a in bad]}, image {[want.get(a) for a in bad]}')
    for fmt, o in zip(FORMATS, outs[2:6]):
        try:
            if fmt == 'listing':
                got, rows = F.decode_listing(o.pretty)
            elif fmt == 'hex':
                got = F.decode_hex_dump(o.pretty)
            elif fmt == 'intel_hex':
                got = F.decode_intel_hex(o.pretty)
            else:
                got = F.decode_minhex(o.pretty, first_address=min(mem) if mem else None)
        except F.FormatError as e:
            return f'{fmt}: {e}'
        if got != mem:
            extra = sorted(set(got) - set(mem))[:4]
            missing = sorted(set(mem) - set(got))[:4]
            wrong = sorted(a for a in set(got) & set(mem) if got[a] != mem[a])[:4]
            return (f'{fmt} describes a different memory map than the image: extra addresses {extra}, missing {missing}, '
                    f'different bytes at {wrong}')
        if fmt == 'listing' and want_rows is not None:
            seen = {}
            for r in rows:
                key = (r['file'].rsplit('/', 1)[-1], r['line'], r['instruction'])
                seen.setdefault(key, []).append(r)
            for w in want_rows:
                key = (w['file'], w['line'], w['instruction'])
                got_rows = seen.get(key, [])
                if len(got_rows) != 1:
                    return f'listing shows statement {key} {len(got_rows)} times'
                r = got_rows[0]
                if r['addr'] != w['addr']:
                    return f'listing shows {key} at {r["addr"]:#x}, assigned address {w["addr"]:#x}'
                if bytes(r['bytes']).hex() != w['bytes']:
                    return f'listing shows bytes {bytes(r["bytes"]).hex()} for {key}, produced {w["bytes"]}'
    return None


def shard(acc, tier, idx, n):
    q = tier == 'quick'
    depth = 3 if q else 4
    for bits, params, far in configs():
        isa = probe_isa(bits, 'little', zones=params.zones, data=params.data or None)

        def build(h):
            files = {}
            stmts = []
            for i, j in enumerate(h):
                s = sigma(i, far)[j]
                stmts.append(s)
                if s[0] == 'include':
                    files[s[1]] = [('data', 1, [0xD0 + i]), ('org', far - 0x20 + 4 * i, None), ('data', 1, [0xE0 + i, 0xE1])]
            stmts.append(('data', 1, [0xEE]))
            files['main.asm'] = stmts
            return files

        def ok(h):
            return R.assemble(params, build(h)).status != 'REJECT'

        for h in histories(list(range(NSYM)), depth, idx, n, prefix_ok=ok):
            files = build(h)
            examine(acc, isa, params, bits, h, files, len(h) == depth)
        # an explicit origin of zero in front of a stretch that emits nothing at address zero (muted lines, a zone switch, an alignment)
        gaps = [[('mute',), ('data', 1, [1, 2, 3]), ('unmute',)], [('memzone', 'zz')], [('mute',), ('data', 1, [5]), ('unmute',), ('align', 8)],
                [('fill', 0, 1), ('mute',), ('data', 2, [0, 0xFFFF]), ('unmute',)], [('org', 0x18, None)], []]
        tails = [[('data', 1, [0x41])], [('data', 1, [0x41 + k for k in range(8)])], [('label', 'lz'), ('data', 1, [0x42]), ('org', far, None), ('data', 1, [0x43])]]
        for gi, ti, lead in itertools.product(range(len(gaps)), range(len(tails)), (0, 1)):
            if (bits + gi * 7 + ti * 3 + lead) % n != idx:
                continue
            stmts = ([('label', 'top')] if lead else []) + [('org', 0, None)] + gaps[gi] + tails[ti] + [('data', 1, [0xEE])]
            if R.assemble(params, {'main.asm': stmts}).status == 'OK':
                examine(acc, isa, params, bits, ('org0', gi, ti, lead), {'main.asm': stmts}, gi == 0 and ti == 0)
        if bits == 16:
            mute_nesting(acc, isa, params, bits, idx, n, q)
    corpus_programs(acc, idx, n)


def corpus_programs(acc, idx, n):
    """The example programs shipped with the repository under their own instruction-set definitions (4- to 16-bit addresses,
    predefined data, includes, strings, macros): the four formats, decoded independently, describe the memory the image holds, also
    when they are requested together with a window that starts one byte into the program."""
    from mc import corpus
    for i, prog in enumerate(corpus.programs()):
        if i % n != idx:
            continue
        cases = [corpus.case_for(prog, fill=0), corpus.case_for(prog, fill=0xFF)] + [corpus.case_for(prog, pretty=f) for f in FORMATS]
        outs = [acc.run(c) for c in cases]
        acc.transition(len(cases))
        if any(o.status != 'OK' for o in outs[:2]):
            acc.dc(f'example program {prog[0]} is not assembled by this tree')
            continue
        mem = truth_from_images(outs[0].image, outs[1].image)
        wstart = (min(mem) + 1) if mem else None
        if wstart is not None:
            more = [corpus.case_for(prog, fill=0, start=wstart), corpus.case_for(prog, fill=0xFF, start=wstart)] + \
                   [corpus.case_for(prog, pretty=f, start=wstart) for f in FORMATS]
            cases += more
            outs += [acc.run(c) for c in more]
            acc.transition(len(more))
        spec = {'type': 'formats', 'rows': None, 'window_start': wstart, 'program': prog[0]}
        msg = check_formats(spec, outs)
        if msg:
            acc.violation(cases, spec, f'example program {prog[0]}: {msg}', outs)
        check_no_binary(acc, lambda f: corpus.case_for(prog, pretty=f, binary=False), outs, f'example program {prog[0]}')
        acc.state(('corpus', prog[0]))
        for f in FORMATS:
            acc.judge(clause=f, nontrivial_key=('corpus', prog[0], f))


def mute_nesting(acc, isa, params, bits, idx, n, q):
    """#mute / #unmute are counted; an included file starts with the count of its #include line and hands its own count back.  Every
    history over {#mute, #unmute, a byte, an include of a plain file, of a file that unmutes, of a file that mutes} up to depth 5 (6)."""
    inc_bodies = {'plain': [], 'unmutes': [('unmute',)], 'mutes': [('mute',)]}

    def build(h):
        files = {}
        stmts = []
        for i, sym in enumerate(h):
            if sym in inc_bodies:
                name = f'n{i}.asm'
                files[name] = [('data', 1, [0xB0 + i])] + inc_bodies[sym] + [('data', 1, [0xC0 + i, 0xC1])]
                stmts.append(('include', name))
            elif sym == 'byte':
                stmts.append(('data', 1, [0x41 + i]))
            else:
                stmts.append((sym,))
        stmts.append(('data', 1, [0xEE]))
        files['main.asm'] = stmts
        return files

    alphabet = ['mute', 'unmute', 'byte', 'plain', 'unmutes', 'mutes']
    depth = 5 if q else 6
    for h in histories(alphabet, depth, idx, n):
        if 'mute' not in h and 'mutes' not in h:
            continue
        examine(acc, isa, params, ('nest', bits), h, build(h), len(h) == depth and h[0] == 'mute' and h[-1] == 'unmute')


def examine(acc, isa, params, bits, h, files, sample):
    ref = R.assemble(params, files)
    if ref.status != 'OK':
        if ref.status == 'DC':
            acc.dc(ref.reason)
        return
    acc.state((bits, tuple(sorted(ref.mem.items()))))
    text = R.render_files(files)
    cases = [Case(isa, text, fill=0), Case(isa, text, fill=0xFF)] + [Case(isa, text, pretty=f) for f in FORMATS]
    multi = [l for l in ref.lines if l.size > 1 and not l.muted]
    wstart = multi[0].addr + 1 if multi else None          # strictly inside the first multi-byte statement
    if wstart is not None:
        cases += [Case(isa, text, fill=0, start=wstart), Case(isa, text, fill=0xFF, start=wstart)]
        cases += [Case(isa, text, pretty=f, start=wstart) for f in FORMATS]
    outs = [acc.run(c) for c in cases]
    acc.transition(len(cases))
    rows = []
    for l in ref.lines:
        if l.kind in ('data', 'fill', 'nop', 'ldi', 'jmp', 'brr', 'zero', 'zerountil'):
            rows.append({'file': l.file, 'line': l.lineno, 'instruction': R.render_stmt(l.stmt).strip(), 'addr': l.addr,
                         'bytes': '' if l.muted else l.bytes.hex()})
    spec = {'type': 'formats', 'rows': rows, 'window_start': wstart}
    msg = check_formats(spec, outs)
    if not msg and outs[0].status == 'OK' and outs[0].image is not None:
        # the image covers exactly the addresses up to the highest one the formats describe (no end was asked for)
        want_len = (max(ref.mem) + 1) if ref.mem else 0
        if len(outs[0].image) != want_len:
            msg = (f'the image is {len(outs[0].image)} bytes long, the formats describe memory up to address '
                   f'{max(ref.mem) if ref.mem else None} ({want_len} bytes)')
            spec = dict(spec, image_length=want_len)
    if msg:
        acc.violation(cases, spec, msg, outs)
    check_no_binary(acc, lambda f: Case(isa, text, pretty=f, binary=False), outs, 'program ' + repr(h))
    gap = bool(ref.mem) and (len(ref.mem) != max(ref.mem) - min(ref.mem) + 1)
    nt = gap or bool(ref.muted_mem) or any(l.size > 6 for l in ref.lines)
    for f in FORMATS:
        acc.judge(clause=f, nontrivial_key=(bits, h, f) if nt else None)
    acc.judge(clause='listing-rows')
    if sample:
        acc.sample({'address_bits': bits, 'program': text, 'memory_map': {hex(a): b for a, b in sorted(ref.mem.items())}})


_NBF = [0]


def check_no_binary(acc, make_case, image_outs, what):
    """One format (rotating) requested with --no-binary: it describes the memory the image of the same program holds."""
    mem = truth_from_images(image_outs[0].image, image_outs[1].image) if all(o.status == 'OK' for o in image_outs[:2]) else None
    if mem is None:
        return
    _NBF[0] += 1
    fmt = FORMATS[_NBF[0] % len(FORMATS)]
    case = make_case(fmt)
    out = acc.run(case)
    acc.transition()
    spec = {'type': 'no-binary-format', 'format': fmt, 'memory': {str(a): b for a, b in sorted(mem.items())} if len(mem) <= 64 else None}
    msg = judge_no_binary(fmt, out, mem)
    if msg:
        spec['memory'] = {str(a): b for a, b in sorted(mem.items())}
        acc.violation([case], spec, f'{what}: {msg}', [out])


def judge_no_binary(fmt, out, mem):
    if out.status != 'OK':
        return f'{fmt} with --no-binary: {out.status} {out.detail}'
    try:
        if fmt == 'listing':
            got, _ = F.decode_listing(out.pretty)
        elif fmt == 'hex':
            got = F.decode_hex_dump(out.pretty)
        elif fmt == 'intel_hex':
            got = F.decode_intel_hex(out.pretty)
        else:
            got = F.decode_minhex(out.pretty, first_address=min(mem) if mem else None)
    except F.FormatError as e:
        return f'{fmt} with --no-binary: {e}'
    if got != mem:
        bad = sorted(a for a in set(got) | set(mem) if got.get(a) != mem.get(a))[:4]
        return (f'{fmt} requested with --no-binary describes different memory than the image of the same program at {[hex(a) for a in bad]}: '
                f'{fmt} {[got.get(a) for a in bad]}, image {[mem.get(a) for a in bad]}')
    return None


def judge(spec, outcomes):
    if spec.get('type') == 'no-binary-format':
        mem = {int(a): b for a, b in (spec.get('memory') or {}).items()}
        return judge_no_binary(spec['format'], outcomes[0], mem)
    return check_formats(spec, outcomes)
