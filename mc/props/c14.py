"""C14 - assembly always terminates and fails closed.

Deviation-bounded fault enumeration: valid base programs that together use every line kind, and
every single deviation (thorough: every pair of line-level deviations) from a fixed menu; on every
execution the invariants are checked: termination, no image created or altered on failure, image
present on success, and rejection of the four kinds of deviation that must never assemble.
"""
import itertools
import re

from mc import world
from mc.world import Case
from mc.props import c10

ID = 'C14'
LEVEL = 'fault_enumeration'

ISA = dict(c10.BASE_ISA)
ISA['general'] = dict(ISA['general'], allow_embedded_strings=True)
ISA['macros'] = {'mac': [{'operands': {'count': 2, 'operand_sets': {'list': ['reg', 'imm']}},
                          'instructions': ['ldi @REG(0), @ARG(1)', 'brr @ARG(1)']}]}
ISA['operand_sets'] = dict(ISA['operand_sets'], imm4={'operand_values': {'i4': {'type': 'numeric', 'argument': {'size': 4, 'byte_align': False}}}})
ISA['operand_sets']['rel_c'] = {'operand_values': {'rc': {'type': 'relative_address', 'use_curly_braces': True,
                                                           'argument': {'size': 8, 'byte_align': True}}}}
ISA['instructions'] = dict(ISA['instructions'], brc={'bytecode': {'value': 0x91, 'size': 8}, 'operands': {'count': 1, 'operand_sets': {'list': ['rel_c']}}})
ISA['operand_sets']['spx'] = {'operand_values': {'sx': {'type': 'indirect_register', 'register': 'sp', 'bytecode': {'value': 3, 'size': 4},
                                                        'offset': {'size': 8, 'byte_align': True}},
                                                 'sxi': {'type': 'indirect_indexed_register', 'register': 'b', 'bytecode': {'value': 4, 'size': 4},
                                                         'index_operands': {'i': {'type': 'numeric', 'argument': {'size': 8, 'byte_align': True}}}},
                                                 'xi': {'type': 'indexed_register', 'register': 'a', 'bytecode': {'value': 5, 'size': 4},
                                                        'index_operands': {'i': {'type': 'numeric', 'argument': {'size': 8, 'byte_align': True}}}}}}
ISA['instructions'] = dict(ISA['instructions'], lds={'bytecode': {'value': 0xB, 'size': 4}, 'operands': {'count': 1, 'operand_sets': {'list': ['spx']}}})
# a relative branch whose offset field has no configured minimum / maximum: the field width is the only limit
ISA['operand_sets']['rel_n'] = {'operand_values': {'rn': {'type': 'relative_address', 'argument': {'size': 8, 'byte_align': True}}}}
ISA['instructions'] = dict(ISA['instructions'], brn={'bytecode': {'value': 0x93, 'size': 8}, 'operands': {'count': 1, 'operand_sets': {'list': ['rel_n']}}})
# an operand-less instruction declared with an explicit empty operands block
ISA['instructions'] = dict(ISA['instructions'], hlt0={'bytecode': {'value': 0x92, 'size': 8}, 'operands': {'count': 0}})
ISA['instructions'] = dict(ISA['instructions'], n4={'bytecode': {'value': 0x3, 'size': 4}, 'operands': {'count': 1, 'operand_sets': {'list': ['imm4']}}})
# exclusions: `push` takes register a but not b (a one-operand exclusion), `ldi b, <imm>` is fine but the 3-operand `mov3 b, a, b` is excluded
ISA['instructions'] = dict(ISA['instructions'],
                           push={'bytecode': {'value': 0x7, 'size': 4}, 'operands': {'count': 1, 'operand_sets': {'list': ['reg'], 'disallowed_pairs': [['rb']]}}},
                           mov3={'bytecode': {'value': 0x2, 'size': 4}, 'operands': {'count': 3, 'operand_sets': {'list': ['reg', 'reg', 'reg'],
                                                                                                             'disallowed_pairs': [['rb', 'ra', 'rb']]}}})
ISA['predefined'] = {'memory_zones': [{'name': 'zz', 'start': 0x40, 'end': 0x5F}],
                     'data': [{'name': 'blk', 'address': 0x70, 'value': 1, 'size': 2}],
                     'symbols': [{'name': 'PRE', 'value': '1'}]}

BASES = {
    'code': ['start: nop', '    ldi a, 5', '.loop:', '    ldi b, val+1', '    brr .loop', '    jmp start', '    push a', '    mov3 a, a, b',
             '    ldm [val]', '    sel foo', '    n12 3', '    n4 7', '    hlt0', '    brc {start}', '    brn start', '    lds [sp+2]', '    lds [b + val]', '    lds a + 1', 'val: .byte 1, 2, $1F', '    .2byte start, val'],
    'control': ['#define SA 1', '#define SB SA', '#if SA == 1', '    .byte 1', '#elif SB', '    .byte 2', '#else', '    .byte 3', '#endif',
                '#ifdef PRE', '    .byte SB', '#endif', '#ifndef NOPE', 'K = 4', '#endif', '    .byte K'],
    'layout': ['    .org $10', 'a1: .byte 1', '    .align 8', '    .fill 3, $55', '    .zero 2', '    .zerountil $25', '    .memzone zz',
               'z1: .byte 2', '    .org 4 "zz"', '    .byte 3', '    .memzone GLOBAL', '    .4byte a1, z1'],
    'strings': ['    .cstr "a;b"', '    .asciiz \'q\'', '    .byte "xy"', '    "emb"', '    .byte \'A\', 3'],
    'files': ['#create_memzone zq $60 $6F', '#mute', '    .byte 9', '#unmute', '#include "inc.asm"', '    .memzone zq', '    .byte inc_lab'],
    'macro': ['top: mac a, top', 'K2 = (3 + 4) * 2', '    mac b, K2 + top', '    .byte LSB(K2), BYTE1(top + 256)', '    .8byte -1'],
}
INCLUDED = 'inc_lab: nop\n    .byte 5\n'
GARBLE = ['@', ',', '(', '"', ':']
ZERO_LEN = ['    .fill 0, 0', '    .zero 0', '    .zerountil 0']


def tokenize(line):
    return re.findall(r'\s+|"[^"]*"|\'[^\']*\'|[A-Za-z_.#$%0-9]+|.', line)


def deviations(lines):
    """-> list of (description, new_lines, must_reject)"""
    out = []
    for i, line in enumerate(lines):
        toks = tokenize(line)
        for k, t in enumerate(toks):
            if t.isspace():
                continue
            out.append((f'line {i}: drop token {t!r}', lines[:i] + [''.join(toks[:k] + toks[k + 1:])] + lines[i + 1:], False))
            out.append((f'line {i}: duplicate token {t!r}', lines[:i] + [''.join(toks[:k + 1] + [' '] + toks[k:])] + lines[i + 1:], False))
            for g in GARBLE:
                out.append((f'line {i}: token {t!r} := {g!r}', lines[:i] + [''.join(toks[:k] + [g] + toks[k + 1:])] + lines[i + 1:], False))
        out.append((f'drop line {i}', lines[:i] + lines[i + 1:], False))
        out.append((f'duplicate line {i}', lines[:i + 1] + lines[i:], False))
    for i in range(len(lines) + 1):
        for z in ZERO_LEN:
            out.append((f'insert {z.strip()!r} before line {i}', lines[:i] + [z] + lines[i:], False))
    return out


def must_reject(lines):
    out = []
    for i, line in enumerate(lines):
        toks = tokenize(line)
        for k, t in enumerate(toks):
            if t in ('start', 'val', '.loop', 'top', 'a1', 'z1', 'inc_lab') and not line.lstrip().startswith(t + ':') and \
                    not (k + 1 < len(toks) and toks[k + 1] == ':'):
                out.append((f'line {i}: label reference {t} := undefined name', lines[:i] + [''.join(toks[:k] + ['undefined_q'] + toks[k + 1:])] + lines[i + 1:]))
            if t in ('nop', 'hlt0') and line.strip() == t:
                for extra in ('5', 'a', 'val', '[5]', 'val, 5', ',', ', ,'):
                    out.append((f'line {i}: operand {extra!r} after {t}, which takes none', lines[:i] + [f'    {t} {extra}'] + lines[i + 1:]))
            if t in ('nop', 'ldi', 'brr', 'jmp', 'push', 'mov3', 'ldm', 'sel', 'n12', 'n4', 'mac', 'hlt0', 'brc', 'lds', 'brn'):
                out.append((f'line {i}: mnemonic {t} := unknown word', lines[:i] + [''.join(toks[:k] + ['qqq'] + toks[k + 1:])] + lines[i + 1:]))
        m = re.match(r'^(\s*(?:\w+:\s*)?)(ldi|push|ldm|sel|n12|n4|brr|jmp|brn|mov3)\s+(.*)$', line)
        if m:
            bad = {'ldi': 'a, [5]', 'push': 'b', 'ldm': 'a', 'sel': 'nokey_', 'n12': '[3]', 'n4': '[1]', 'brr': '[[1]]', 'jmp': 'a', 'brn': '[a]', 'mov3': 'b, a, b'}[m.group(2)]
            out.append((f'line {i}: operands no variant accepts', lines[:i] + [f'{m.group(1)}{m.group(2)} {bad}'] + lines[i + 1:]))
            # an empty operand slot (stray comma): the statement has an operand no variant accepts
            ops = m.group(3)
            strays = [ops + ',', ', ' + ops, ops.replace(',', ',,', 1) if ',' in ops else ops + ', ,']
            for st in strays:
                out.append((f'line {i}: stray comma in the operands ({st.strip()!r})', lines[:i] + [f'{m.group(1)}{m.group(2)} {st}'] + lines[i + 1:]))
            # a character that belongs to no token after the operands: the statement has an operand no variant accepts
            for junk in ('!', '?', '$', '@', '~', '`'):
                for text in (ops + ' ' + junk, ops + junk):
                    out.append((f'line {i}: stray character after the operands ({text.strip()!r})', lines[:i] + [f'{m.group(1)}{m.group(2)} {text}'] + lines[i + 1:]))
            # values just outside the signed-or-unsigned range of the field: 2^w, 2^w + 1, -2^(w-1) - 1, -(2^w - 1)
            bigs = {'ldi': ['a, 256', 'a, -129', 'a, -255'], 'n12': ['256', '-129', '257'], 'n4': ['16', '-9', '-15', '17'],
                    'ldm': ['[65536]', '[-32769]'], 'jmp': ['65536'],
                    'brn': ['start + 1000', 'start - 1000', '$7000']}.get(m.group(2), [])
            for big in bigs:
                out.append((f'line {i}: value {big} outside its field',
                            lines[:i] + [f'{m.group(1)}{m.group(2)} {big}'] + lines[i + 1:]))
    # a local label used from another region (after a later non-local label, after an origin): not resolvable from there
    local_defs = [(i, re.match(r'^(\.\w+):', l).group(1)) for i, l in enumerate(lines) if re.match(r'^(\.\w+):', l)]
    for di, name in local_defs:
        for i in range(di + 1, len(lines)):
            if re.match(r'^[A-Za-z]\w*:', lines[i]) or lines[i].strip().startswith('.org'):
                for use in (f'    .2byte {name}', f'    jmp {name}', f'    ldi a, {name} + 1'):
                    out.append((f'line {i}: local label {name} used after {lines[i].split()[0]} (another region): unresolvable label', lines[:i + 1] + [use] + lines[i + 1:]))
    return out


UNDEFINED_DIRECTIVES = ['    .fill 0, undefined_q', '    .fill undefined_q, 0', '    .fill 2, undefined_q + 1', '    .zero undefined_q',
                        '    .zerountil undefined_q', '    .org undefined_q', '    .align undefined_q', 'KU = undefined_q',
                        '    .byte 1, undefined_q', '    .2byte BYTE1(undefined_q)', '    .fill 1 - 1, undefined_q',
                        '    .fill KZ, undefined_q']


UNKNOWN_DIRECTIVES = ['#endfi', '#defne QX 1', '##define QX 1', '#pragma once', '#mtue', '#elseif 1', '#includ "inc.asm"']


def must_reject_insertions(lines):
    """An unresolvable label in any directive position - also where the directive ends up emitting nothing - must not assemble."""
    out = []
    for i in range(len(lines) + 1):
        for d in UNDEFINED_DIRECTIVES:
            out.append((f'insert {d.strip()!r} before line {i}: unresolvable label', ['KZ = 0'] + lines[:i] + [d] + lines[i:]))
    # a line that starts with # and is no directive the assembler knows (a misspelled one): an unknown instruction
    for i in range(len(lines) + 1):
        for d in UNKNOWN_DIRECTIVES:
            out.append((f'insert {d!r} before line {i}: unknown directive', lines[:i] + [d] + lines[i:]))
    return out


def long_expressions(n):
    toks = ' '.join(['1'] * n)
    mixed = ' '.join(['1', '+'] * (n // 2) + ['1'])
    out = []
    for t in (toks, mixed):
        out += [f'    .fill {t}', f'    .fill 1, {t}', f'    .byte {t}', f'    .zero {t}', f'    .zerountil {t}', f'    .org {t}', f'K9 = {t}',
                f'#if {t}', f'#if {t} == {t}', f'    ldi a, {t}', f'    .align {t}', f'#define LONG {t}', f'    jmp {t}']
    return out


def long_words(n):
    """Operands that are opened and never closed, followed by one long word or many short ones: every pattern that could match them
    must give up in reasonable time."""
    w = 'a' * n
    ws = ' '.join(['ab'] * (n // 2))
    out = []
    for t in (w, ws):
        out += [f'    brc {{{t}', f'    brc {{{t} +', f'    ldm [{t}', f'    ldm [[{t}]', f'    jmp ({t}', f'    jmp (({t})', f'    .byte "{t}',
                f"    .cstr '{t}", f'    ldi a, ({t}', f'    sel {t}', f'    push {t}', f'    mac a, {{{t}', f'#include "{t}', f'#define LW ({t}',
                f'    .org ({t}', f'    "{t}', f'{t}', f'{t}:{t}', f'    lds [sp + {t}', f'    lds [sp - {t} +', f'    lds [sp+{t}] {t}',
                f'    lds [b + {t}', f'    lds a + {t} )', f'    lds [[{t}', f'    sel {t} {t}']
    return out


def meta(tier):
    q = tier == 'quick'
    return {
        'rule': 'base programs (6, together using every line kind incl. includes, macros, zones, strings, conditionals) x every single '
                'deviation: drop / duplicate / garble (5 characters) each token, drop / duplicate each line, insert a zero-length '
                'directive at each position, and the four must-reject replacements (undefined label, unknown mnemonic, operands no '
                'variant accepts, a local label used from another region, a stray comma or a stray character after the operands, value just outside its field on either side), a directive with an unresolvable label inserted at each '
                'position (also directives that emit nothing: .fill 0, x), a misspelled # directive inserted at each position; the repository\'s example programs (quick: the small ones) damaged one line at a time (dropped, doubled, first word garbled, last character dropped) under rotating output configurations, judged on the invariants; expression-length family (N in 8,16,24,32,64 tokens in every expression position); long-word family (an operand, string or '
                'bracket that is opened and never closed, followed by one word of 16..64 characters or many short ones, in 25 positions); '
                'empty-image family (5 programs that assemble to no byte at all x configurations x output pre-seeded / absent: the image must exist afterwards); '
                'wide-address family (address widths 24/32/40/64 x code at 7 addresses around 2^16, 2^24, 2^32, 2^40, 2^48 x every format, where a '
                'format may be unable to express the address and the failure arises while the outputs are produced); each '
                'under the output configurations (no pretty print / each of 4 formats / a window / --no-binary with a pretty print / --no-binary alone / -vvv) with the output file pre-seeded with '
                'a sentinel (and, for line-level deviations, absent); thorough: every pair of line-level deviations; '
                'non-trivial = execution that ends in a rejection, or a must-reject deviation; states: n/a',
        'bounds': {'bases': {k: len(v) for k, v in BASES.items()}, 'garble_characters': GARBLE, 'zero_length': ZERO_LEN,
                   'timeout_s_inproc': 10, 'timeout_s_cli_confirmation': 60},
        'assumptions': ['termination is judged by a 10 s wall-clock budget per execution (normal executions take ~2 ms) and reported only '
                        'if the same input also exceeds 60 s through the real CLI in a fresh process'],
        'floors': {'evaluations': 1000, 'nontrivial': 100, 'statuses': ['OK', 'REJECT'], 'clauses': ['invariants', 'must-reject', 'long-expression', 'wide-address', 'empty-image']},
        'nshards': 64, 'xcheck': 24,
    }


def judge(spec, outcomes):
    o = outcomes[0]
    if o.status == 'HANG':
        return f'assembly did not terminate ({o.detail})'
    sentinel = world.SENTINEL
    if o.status != 'OK':
        if spec.get('preseed'):
            if o.image != sentinel:
                return f'assembly failed ({o.detail}) but the existing output file was altered or removed'
        elif o.image is not None:
            return f'assembly failed ({o.detail}) but an image of {len(o.image)} bytes was created'
    else:
        if spec.get('binary', True) and (o.image is None or o.image == sentinel):
            return 'success was reported but no image was written'
        if spec.get('must_reject'):
            return f'success was reported for a program with {spec["must_reject"]} (image {o.image.hex()[:40] if o.image else None})'
    return None


def confirm(viol):
    spec = viol['spec']
    case = Case.from_json(viol['cases'][0])
    o = world.run_cli(case, timeout=60.0)
    return judge(spec, [o]), [o]


CONFIGS = [
    {'pretty': None}, {'pretty': 'listing'}, {'pretty': 'hex'}, {'pretty': 'intel_hex'}, {'pretty': 'minhex'},
    {'pretty': None, 'start': 2, 'end': 0x30, 'fill': 0xFF},
    {'pretty': 'hex', 'binary': False},         # --no-binary: only a pretty print is requested
    {'pretty': 'listing', 'verbose': 3},        # -vvv: everything is logged
    {'pretty': None, 'binary': False},          # --no-binary and no pretty print: nothing at all is written
]


def execute(acc, lines, what, must, clause, cfg, preseed=True, isa=None, included=None):
    files = {'main.asm': '\n'.join(lines) + '\n', 'inc.asm': included or INCLUDED}
    case = Case(isa or ISA, files, preseed=preseed, pretty=cfg.get('pretty'), start=cfg.get('start', 0), end=cfg.get('end'),
                fill=cfg.get('fill', 0), binary=cfg.get('binary', True), verbose=cfg.get('verbose', 0))
    out = acc.run(case)
    spec = {'type': 'c14', 'preseed': preseed, 'must_reject': must, 'deviation': what, 'binary': cfg.get('binary', True)}
    msg = judge(spec, [out])
    if msg:
        acc.violation([case], spec, f'{what}: {msg}', [out])
    acc.judge(clause=clause, nontrivial_key=(what, tuple(sorted(cfg.items(), key=str)), preseed) if (out.status != 'OK' or must) else None)
    return out


def corpus_deviations(acc, idx, n, q):
    """The repository's example programs under their own definitions, damaged one line at a time (line dropped, line doubled, first word
    garbled, last character dropped): whatever the outcome, the run terminates, a failure leaves the existing output file alone and a
    reported success has written the image."""
    from mc import corpus
    ctr = 0
    for prog in corpus.programs(small_only=q):
        text = prog[3][prog[4]]
        lines = text.split('\n')
        step = 1 if len(lines) <= 120 else 5          # long programs: every fifth line
        for i in range(0, len(lines), step):
            if not lines[i].strip():
                continue
            first = lines[i].split()[0]
            damaged = {
                'dropped': lines[:i] + lines[i + 1:],
                'doubled': lines[:i + 1] + lines[i:],
                'first word garbled': lines[:i] + [lines[i].replace(first, first[:-1] + '~', 1)] + lines[i + 1:],
                'last character dropped': lines[:i] + [lines[i].rstrip()[:-1]] + lines[i + 1:],
            }
            for what, new in damaged.items():
                ctr += 1
                if ctr % n != idx:
                    continue
                cfg = CONFIGS[ctr % len(CONFIGS)]
                files = dict(prog[3])
                files[prog[4]] = '\n'.join(new)
                case = corpus.case_for(prog, files=files, preseed=True, pretty=cfg.get('pretty'), start=cfg.get('start', 0), end=cfg.get('end'),
                                       fill=cfg.get('fill', 0), binary=cfg.get('binary', True), verbose=cfg.get('verbose', 0))
                out = acc.run(case)
                spec = {'type': 'c14', 'preseed': True, 'must_reject': None, 'deviation': f'{prog[0]} line {i + 1} {what}', 'binary': cfg.get('binary', True)}
                msg = judge(spec, [out])
                if msg:
                    acc.violation([case], spec, f'example program {prog[0]}, line {i + 1} {what}: {msg}', [out])
                acc.judge(clause='invariants', nontrivial_key=('corpus', prog[0], i, what) if out.status != 'OK' else None)


def shard(acc, tier, idx, n):
    q = tier == 'quick'
    acc.timeout = 10.0
    ctr = 0
    corpus_deviations(acc, idx, n, q)
    for bname, lines in BASES.items():
        # the base programs themselves must assemble under every configuration
        for cfg in CONFIGS:
            ctr += 1
            if ctr % n == idx:
                o = execute(acc, lines, f'{bname}: no deviation', None, 'invariants', cfg)
                if o.status != 'OK':
                    acc.violation([Case(ISA, {'main.asm': '\n'.join(lines) + '\n', 'inc.asm': INCLUDED})], {'type': 'c14', 'preseed': True},
                                  f'base program {bname} does not assemble: {o.detail}', [o])
                acc.sample({'base': bname, 'program': '\n'.join(lines), 'config': cfg})
        devs = deviations(lines)
        for di, (what, new, _) in enumerate(devs):
            ctr += 1
            if ctr % n != idx:
                continue
            line_level = what.startswith(('drop line', 'duplicate line', 'insert'))
            cfgs = CONFIGS
            for cfg in cfgs:
                execute(acc, new, f'{bname}: {what}', None, 'invariants', cfg)
            if line_level:
                execute(acc, new, f'{bname}: {what}', None, 'invariants', CONFIGS[0], preseed=False)
        # (not into the base with conditional blocks: a line inserted into an unselected branch is rightly ignored)
        for what, new in must_reject(lines) + ([] if bname == 'control' else must_reject_insertions(lines)):
            ctr += 1
            if ctr % n != idx:
                continue
            kind = what.split(': ', 1)[1]
            for cfg in (CONFIGS[0], CONFIGS[1], CONFIGS[6], CONFIGS[7], CONFIGS[8]):
                execute(acc, new, f'{bname}: {what}', kind, 'must-reject', cfg)
        if not q:
            ll = [d for d in devs if d[0].startswith(('drop line', 'duplicate line', 'insert'))]
            for (w1, n1, _), (w2, n2, _) in itertools.combinations(ll, 2):
                ctr += 1
                if ctr % n != idx:
                    continue
                # second deviation applied to the result of the first, at the same index if it still exists
                second = deviations(n1)
                match = [d for d in second if d[0] == w2]
                if match:
                    execute(acc, match[0][1], f'{bname}: {w1} + {w2}', None, 'invariants', CONFIGS[(ctr // n) % 2])
    # ---- successful assemblies whose image holds no byte at all: the (empty) image still exists afterwards ------------------------
    empties = [
        ('definitions only', ['K = 1', 'lab:', '    .org $10', '; nothing else'], {}),
        ('zero-length directives only', ['    .zero 0', '    .fill 0, $FF'], {}),
        ('everything muted', ['#mute', '    .byte 1, 2', '    nop', '#unmute'], {}),
        ('window beyond the code', ['    .byte 1, 2'], {'start': 0x40}),
        ('window before the code', ['    .org $20', '    .byte 1, 2'], {'start': 0, 'end': 0x0F, 'fill': 0}),
    ]
    for what, new, extra in empties:
        for cfg in CONFIGS[:6]:
            for pre in (True, False):
                ctr += 1
                if ctr % n != idx:
                    continue
                o = execute(acc, new, f'empty image: {what}', None, 'empty-image', dict(cfg, **extra), preseed=pre)
                if o.status != 'OK':
                    acc.violation([Case(ISA, {'main.asm': '\n'.join(new) + '\n', 'inc.asm': INCLUDED})], {'type': 'c14', 'preseed': pre},
                                  f'program ({what}) does not assemble: {o.detail}', [o])
    # ---- labels of file scope are unresolvable from the other file of an include pair --------------------------------
    lines = BASES['files']
    cross = [
        ('included file uses a file-scope constant of its includer', ['_mine = 5'] + lines, 'inc_lab: nop\n    .byte _mine\n'),
        ('included file uses a file-scope label of its includer', ['_mine: nop'] + lines, 'inc_lab: nop\n    .2byte _mine\n'),
        ('includer uses a file-scope label of the included file', lines + ['    .2byte _theirs'], 'inc_lab: nop\n_theirs: .byte 5\n'),
        ('includer uses a file-scope constant of the included file', lines + ['    .byte _theirs'], '_theirs = 5\ninc_lab: nop\n    .byte 5\n'),
        ('included file uses a local label of its includer', ['glob1:', '.mine: nop'] + lines, 'inc_lab: nop\n    .2byte .mine\n'),
    ]
    for what, new, inc in cross:
        for cfg in (CONFIGS[0], CONFIGS[1], CONFIGS[6], CONFIGS[7], CONFIGS[8]):
            ctr += 1
            if ctr % n != idx:
                continue
            execute(acc, new, f'files: {what}', 'a label that cannot be resolved from where it is used', 'must-reject', cfg, included=inc)
    # ---- output-stage failures: addresses a format may be unable to express (wide address spaces) ------------------
    for asz in (24, 32, 40, 64):
        wide = dict(ISA, general=dict(ISA['general'], address_size=asz))
        wide.pop('predefined', None)
        for a in (0xFFFE, 0x10000, 0xFFFFFE, 0xFFFFFFFC, 0x100000000, (1 << 40) - 4, (1 << 48) + 5):
            if a + 6 >= (1 << asz):
                continue
            for cfg in CONFIGS[:5]:
                for pre in (True, False):
                    ctr += 1
                    if ctr % n != idx:
                        continue
                    body = [f'    .org {a}', 'start: nop', '    .byte 1, 2', '    ldi a, 5']
                    execute(acc, body, f'{asz}-bit addresses, code at {a:#x}', None, 'wide-address', dict(cfg, start=a), preseed=pre, isa=wide)
    for nn in (16, 24, 32, 64):
        for li, line in enumerate(long_words(nn)):
            ctr += 1
            if ctr % n != idx:
                continue
            execute(acc, [line, '    .byte 1'], f'{nn} characters: {line[:24]}...', None, 'long-expression', CONFIGS[0])
    for nn in (8, 16, 24, 32, 64):
        for li, line in enumerate(long_expressions(nn)):
            ctr += 1
            if ctr % n != idx:
                continue
            body = [line, '    .byte 1'] + (['#endif'] if line.startswith('#if') else [])
            execute(acc, body, f'{nn} tokens: {line[:24]}...', None, 'long-expression', CONFIGS[0])
