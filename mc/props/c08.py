"""C08 - conditional assembly selects exactly the lines of the taken branches.

History exploration: a state is the sequence of preprocessor directives that reaches it.  Every
history over the directive alphabet up to the depth bound is turned into a whole program (a unique
marker region after every directive, automatic closers, an observation suffix), assembled by the
real assembler and compared with the reference conditional semantics in mc/refasm.py.
"""
import itertools

from mc import refasm as R
from mc.judges import expect_spec, judge_expect
from mc.probe_isa import probe_isa
from mc.world import Case

ID = 'C08'
LEVEL = 'model_checking'

SIGMA = [
    ('if', ('num', 1)), ('if', ('num', 0)), ('if', ('cmp', 10, '>', 9)), ('if', ('cmp', 'SA', '==', 1)),
    ('if', ('cmp', ('add', 'S0', 'SB'), '==', 2)),          # an expression over two symbols: S0 is always defined (program header), SB defined or not when the condition is reached
    ('ifdef', 'SA'), ('ifndef', 'SA'),
    ('elif', ('num', 1)), ('elif', ('num', 0)), ('elif', ('sym', 'SB')),
    ('else',), ('endif',),
    ('define', 'SA', '1'), ('define', 'SB', '1'), ('define', 'SB', '1', '\t'),          # the last one written with tabs
    ('create_memzone', 'zm', 64, 79),
    ('mute',), ('unmute',),
    ('include', 'm.asm'),
]
# reduced alphabet for the deepest level of each tier
SIGMA_CORE = [s for s in SIGMA if s[0] not in ('create_memzone', 'include') and s != ('if', ('cmp', 10, '>', 9))
              and s != ('elif', ('num', 0))]

SIGMA_CORE_Q = [s for s in SIGMA_CORE if s not in (('if', ('cmp', 'SA', '==', 1)), ('elif', ('sym', 'SB')), ('define', 'SB', '1'),
                                                   ('if', ('cmp', ('add', 'S0', 'SB'), '==', 2)))]

INCLUDED = [('data', 1, [0xF0]), ('define', 'SM', '1'), ('data', 1, [0xF1])]
# included files whose own directives are unbalanced (every file has its own chain of openers) or balanced
INC_FILES = {
    'm.asm': INCLUDED,
    'ie.asm': [('data', 1, [0xF4]), ('else',), ('data', 1, [0xF5])],
    'il.asm': [('data', 1, [0xF4]), ('elif', ('num', 1)), ('data', 1, [0xF5])],
    'in.asm': [('data', 1, [0xF4]), ('endif',), ('data', 1, [0xF5])],
    'ib.asm': [('if', ('num', 0)), ('data', 1, [0xF4]), ('else',), ('data', 1, [0xF5]), ('endif',), ('data', 1, [0xF6])],
}
SIGMA_INC = [('if', ('num', 1)), ('if', ('num', 0)), ('ifdef', 'SA'), ('elif', ('num', 1)), ('else',), ('endif',), ('define', 'SA', '1'),
             ('include', 'ie.asm'), ('include', 'il.asm'), ('include', 'in.asm'), ('include', 'ib.asm')]
PARAMS = R.Params(address_size=16, endian='little')
ISA = probe_isa(16, 'little')


def meta(tier):
    q = tier == 'quick'
    return {
        'rule': 'every directive history over the alphabet up to the depth bound (full tree, no sampling); a program is the '
                'history with a unique marker region after every directive (every third marker also defines a label, every '
                'third a constant), automatic #endif closers and an observation suffix (#ifdef probes for SA/SB/SM, a byte '
                'that shows the mute state, references to every label/constant a marker defined, a zone probe); '
                'non-trivial = history with >=1 conditional directive whose reference selection both excludes and includes '
                'at least one marker; plus the comparison product: every pair of 20 operand spellings (incl. quotients that are not whole numbers) (incl. negative values and blanks between tokens) (decimal, hex, binary, expressions, '
                'symbols) x 6 operators, and every operand as a bare condition; plus every condition (8 x 8 numeric spellings and symbol-vs-quoted-text comparisons, 6 operators) stated by #if, by #elif after #if 0, and by a second #elif: same selection under all three, and for == / != between texts the selection itself; states = distinct canonical reference states (symbols, zones, cursors, mute, labels)',
        'bounds': {'alphabet': [R.render_stmt(s) for s in SIGMA], 'core_alphabet': [R.render_stmt(s) for s in SIGMA_CORE_Q],
                   'depth_full_alphabet': 4 if q else 5, 'depth_core_alphabet': 5 if q else 6,
                   'variants_per_history': 'V0 markers+symbol probes; V1 +label/constant references; V2 +zone probe'},
        'assumptions': [
            'reference semantics: mc/refasm.py (frames record enclosing-active / chain-taken / branch-active when the directive is reached)',
            'not judged (dont_care): #else or #elif after #else, conditional chains left open at end of file (never generated: closers are appended)',
            'a condition that mentions an undefined symbol (the two requirement documents contradict each other) may be read as true, as false '
            'or as an error: the program is judged against every combination of readings (up to 2 such conditions, more: dont_care) and must '
            'match one of them, so everything after such a condition is still decided',
            '#mute is a counter (n mutes need n unmutes), as the repository\'s own test_muting pins',
        ],
        'floors': {'evaluations': 1000, 'nontrivial': 100, 'statuses': ['OK', 'REJECT'],
                   'clauses': ['selected', 'rejected-unmatched', 'comparison', 'selected-under-every-reading', 'same-under-if-and-elif']},
        'nshards': len(SIGMA) * len(SIGMA),
    }


def build(history):
    """history (tuple of directive statements) -> list of (variant, files, note)."""
    stmts = []
    labels, consts = [], []
    idx = [0]

    def marker():
        i = idx[0]
        idx[0] += 1
        v = 0x11 + i
        if i % 3 == 1:
            stmts.append(('label', f'L{i}'))
            labels.append(f'L{i}')
        elif i % 3 == 2:
            stmts.append(('const', f'K{i}', 100 + i))
            consts.append(f'K{i}')
        stmts.append(('data', 1, [v]))

    stmts.append(('define', 'S0', '1'))
    marker()
    depth = 0
    for d in history:
        stmts.append(d)
        if d[0] in ('if', 'ifdef', 'ifndef'):
            depth += 1
        elif d[0] == 'endif' and depth > 0:
            depth -= 1
        marker()
    for _ in range(depth):
        stmts.append(('endif',))
        marker()
    base = list(stmts)
    suffix0 = [('data', 1, [0xAE])] + [('unmute',)] * sum(1 for d in history if d[0] == 'mute')
    for sym, v in (('SA', 0xA1), ('SB', 0xA2), ('SM', 0xA3)):
        suffix0 += [('ifdef', sym), ('data', 1, [v]), ('endif',)]
    suffix0.append(('data', 1, [0xAF]))
    variants = [('V0', base + suffix0)]
    refs = [('lab', n) for n in labels] + [('lab', n) for n in consts]
    if refs:
        variants.append(('V1', base + suffix0 + [('data', 2, refs)]))
    if any(d[0] == 'create_memzone' for d in history):
        variants.append(('V2', base + suffix0 + [('memzone', 'zm'), ('data', 1, [0xAD])]))
    return variants


def nontrivial(history, res):
    if not any(d[0] in ('if', 'ifdef', 'ifndef', 'elif', 'else') for d in history):
        return False
    if res.status != 'OK':
        return False
    present = {b for b in res.mem.values()} | {b for b in res.muted_mem.values()}
    nmark = len(history) + 1
    marks = [0x11 + i for i in range(nmark)]
    inc = sum(1 for m in marks if m in present)
    return 0 < inc < nmark


def check_history(acc, history):
    """Executes all variants of one history; returns (reference state key, extendable)."""
    files_extra = INC_FILES
    state = None
    extendable = True
    for name, stmts in build(history):
        files = {'main.asm': stmts}
        for st in stmts:
            if st[0] == 'include':
                files[st[1]] = files_extra[st[1]]
        # one reference result per reading of the conditions that mention an undefined symbol (true / false / error); a program
        # without such conditions has exactly one
        alts = R.assemble_alternatives(PARAMS, files)
        ref = alts[0]
        case = Case(ISA, R.render_files(files))
        out = acc.run(case)
        acc.transition()
        if name == 'V0':
            state = ref.state_key if ref.status != 'REJECT' else ('REJECT', ref.reason)
            acc.state(state)
        dcs = [a for a in alts if a.status == 'DC']
        if dcs:
            acc.dc(dcs[0].reason)
            continue
        specs = [dict(expect_spec(a), variant=name) for a in alts]
        spec = specs[0] if len(specs) == 1 else {'alternatives': specs, 'variant': name,
                                                 'why': 'a condition mentions an undefined symbol: read as true, false or an error'}
        msg = judge(spec, [out])
        if msg:
            finding = None
            if len(alts) == 1:
                for fid, defects in (('F20', ('include_fresh_mute',)),):
                    alt = R.assemble(PARAMS, files, defects=defects)
                    if alt.status != 'DC' and judge_expect(expect_spec(alt), [out]) is None:
                        finding = fid
            acc.violation([case], spec, f'[{name}] {msg}', [out], finding=finding)
        if len(alts) > 1:
            acc.judge(clause='selected-under-every-reading', nontrivial_key=(history, name))
            if name == 'V0' and all(a.status == 'REJECT' for a in alts) and out.status == 'REJECT':
                extendable = False
            continue
        if ref.status == 'REJECT':
            clause = 'rejected-unmatched' if 'without an opener' in ref.reason else 'rejected-other'
        else:
            clause = 'selected'
        acc.judge(clause=clause, nontrivial_key=(history, name) if nontrivial(history, ref) else None)
        if name == 'V0':
            if ref.status == 'REJECT' and out.status == 'REJECT':
                extendable = False       # rejection happens at the offending directive: every extension is rejected too
            acc.sample({'history': [R.render_stmt(d) for d in history], 'program': R.render(stmts),
                        'reference': spec})
    return state, extendable


def shard(acc, tier, idx, n):
    q = tier == 'quick'
    full_depth = 4 if q else 5
    core_depth = 5 if q else 6
    # shard = subtree under the first two symbols of the full alphabet; depth 0 and 1 belong to shard 0
    comparisons(acc, idx, n)
    elif_like_if(acc, idx, n)
    # included files with stray / balanced directives of their own, at every position of every short history
    ctr = 0
    for depth in range(1, (3 if q else 4) + 1):
        for h in itertools.product(SIGMA_INC, repeat=depth):
            if not any(d[0] == 'include' for d in h):
                continue
            ctr += 1
            if ctr % n == idx:
                check_history(acc, h)
    if idx == 0:
        check_history(acc, ())
        for s in SIGMA:
            check_history(acc, (s,))
    a, b = SIGMA[idx // len(SIGMA)], SIGMA[idx % len(SIGMA)]
    if R.assemble(PARAMS, {'main.asm': build((a,))[0][1], 'm.asm': INCLUDED}).status == 'REJECT':
        return      # (a,) is rejected at its only directive (checked by shard 0): no extension can be accepted
    # depth-first over the subtree (stateless re-execution of every history)
    def rec(hist, alphabet, limit):
        _, extendable = check_history(acc, hist)
        if not extendable or len(hist) >= limit:
            return
        for s in alphabet:
            rec(hist + (s,), alphabet, limit)
    rec((a, b), SIGMA, full_depth)
    core = SIGMA_CORE_Q             # (the 13-symbol SIGMA_CORE is kept for reference; depth 6 over it is out of budget)
    if a in core and b in core:
        # the deepest level only over the core alphabet (histories all of whose symbols are core symbols)
        def rec_core(hist):
            if len(hist) == core_depth:
                check_history(acc, hist)
                return
            if len(hist) >= 2:
                # interior nodes were already executed by the full-alphabet pass; re-derive extendability from the reference
                ref = R.assemble(PARAMS, {'main.asm': build(hist)[0][1], 'm.asm': INCLUDED})
                if ref.status == 'REJECT':
                    return
            for s in core:
                rec_core(hist + (s,))
        rec_core((a, b))


CMP_OPERANDS = [('9', 9), ('10', 10), ('$0A', 10), ('0x0a', 10), ('1+1', 2), ('2', 2), ('SA', 1), ('SN', 12), ('0', 0), ('(3-3)', 0), ('b11', 3),
                ('SM', -3), ('(1-4)', -3), ('SA-2', -1),
                ('SA + 1', 2), ('2 * 5', 10), ('SN - 3 + 1', 10),          # blanks between the tokens of an operand
                ('7/2', 3), ('1/2', 0), ('SN/5', 2)]                      # conditions compare integers: a quotient is truncated like everywhere else
CMP_OPS = {'==': lambda a, b: a == b, '!=': lambda a, b: a != b, '>': lambda a, b: a > b, '>=': lambda a, b: a >= b,
           '<': lambda a, b: a < b, '<=': lambda a, b: a <= b}


def comparisons(acc, idx, n):
    """Conditions compare integers when both sides are numeric (whatever the notation), and a bare expression means != 0."""
    ctr = 0
    for (ta, va), (tb, vb) in itertools.product(CMP_OPERANDS, repeat=2):
        for op, fn in CMP_OPS.items():
            ctr += 1
            if ctr % n != idx:
                continue
            holds = fn(va, vb)
            src = f'#define SA 1\n#define SN 12\n#define SM 0-3\n    .byte 17\n#if {ta} {op} {tb}\n    .byte 34\n#elif {tb} {op} {ta}\n    .byte 51\n#else\n    .byte 68\n#endif\n    .byte 85\n'
            second = fn(vb, va)
            body = [17] + ([34] if holds else [51] if second else [68]) + [85]
            case = Case(ISA, src)
            out = acc.run(case)
            acc.transition()
            spec = {'expect': 'OK', 'image_hex': bytes(body).hex(), 'condition': f'{ta} {op} {tb}'}
            msg = judge_expect(spec, [out])
            if msg:
                acc.violation([case], spec, f'#if {ta} {op} {tb}: {msg}', [out])
            acc.judge(clause='comparison', nontrivial_key=('cmp', ta, op, tb))
    for (ta, va) in CMP_OPERANDS:
        ctr += 1
        if ctr % n != idx:
            continue
        src = f'#define SA 1\n#define SN 12\n#define SM 0-3\n#if {ta}\n    .byte 34\n#else\n    .byte 68\n#endif\n'
        case = Case(ISA, src)
        out = acc.run(case)
        acc.transition()
        spec = {'expect': 'OK', 'image_hex': '22' if va != 0 else '44', 'condition': ta}
        msg = judge_expect(spec, [out])
        if msg:
            acc.violation([case], spec, f'#if {ta}: {msg}', [out])
        acc.judge(clause='comparison', nontrivial_key=('bare', ta))


def elif_like_if(acc, idx, n):
    """A condition holds or not whichever directive states it: `#if 0 / #elif C` selects exactly when `#if C` does, and so does a
    second #elif after an #elif that did not hold.  C ranges over the numeric spellings and over comparisons with quoted texts; for
    == and != between texts the outcome is also judged (equal texts are equal)."""
    ctr = 0
    head = '#define SA 1\n#define SN 12\n#define SM 0-3\n#define ST gamma\n'
    conds = []
    for (ta, va), (tb, vb) in itertools.product(CMP_OPERANDS[:8], repeat=2):
        for op, fn in CMP_OPS.items():
            conds.append((f'{ta} {op} {tb}', fn(va, vb)))
    for lhs, lval in (('ST', 'gamma'), ('SA', '1')):
        for q in ('"', "'"):
            for text in ('gamma', 'beta', 'gamm', 'gammas', '1'):
                for op in CMP_OPS:
                    holds = {'==': lval == text, '!=': lval != text}.get(op)        # None: not judged, only compared between the forms
                    conds.append((f'{lhs} {op} {q}{text}{q}', holds))
    # a numeral between quotes is still numeric: both sides numeric -> integers are compared, whatever the spelling
    for (lhs, lv), (text, tv) in itertools.product((('SN', 12), ('9', 9), ('$0C', 12), ('SA', 1)), (('12', 12), ('0x0C', 12), ('100', 100), ('10', 10), ('09', 9), ('1', 1))):
        for q in ('"', "'"):
            for op, fn in CMP_OPS.items():
                conds.append((f'{lhs} {op} {q}{text}{q}', fn(lv, tv)))
    forms = {'if': '#if {c}\n    .byte 34\n#else\n    .byte 68\n#endif\n',
             'elif': '#if 0\n    .byte 17\n#elif {c}\n    .byte 34\n#else\n    .byte 68\n#endif\n',
             'second-elif': '#if SA == 2\n    .byte 17\n#elif 0\n    .byte 18\n#elif {c}\n    .byte 34\n#else\n    .byte 68\n#endif\n'}
    for cond, holds in conds:
        ctr += 1
        if ctr % n != idx:
            continue
        cases = [Case(ISA, head + f.format(c=cond)) for f in forms.values()]
        outs = [acc.run(c) for c in cases]
        acc.transition(len(cases))
        spec = {'type': 'elif-like-if', 'condition': cond, 'holds': holds}
        msg = judge_forms(spec, outs)
        if msg:
            acc.violation(cases, spec, f'condition {cond}: {msg}', outs)
        acc.judge(clause='same-under-if-and-elif', nontrivial_key=('forms', cond))


def judge_forms(spec, outs):
    names = ['#if', '#if 0 / #elif', 'second #elif']
    for nm, o in zip(names, outs):
        if o.status == 'HANG':
            return f'{nm} form did not terminate'
    keys = [(o.status, o.image) for o in outs]
    if spec.get('holds') is not None:
        want = ('OK', bytes([34 if spec['holds'] else 68]))
        for nm, k in zip(names, keys):
            if k != want:
                return f'{nm} form: expected image {want[1].hex()}, got {k[0]} {None if k[1] is None else k[1].hex()}'
    for nm, k in zip(names[1:], keys[1:]):
        if k != keys[0]:
            return (f'stated by #if the outcome is {keys[0][0]} {None if keys[0][1] is None else keys[0][1].hex()}, stated by {nm} it is '
                    f'{k[0]} {None if k[1] is None else k[1].hex()}')
    return None


def judge(spec, outcomes):
    if spec.get('type') == 'elif-like-if':
        return judge_forms(spec, outcomes)
    if 'alternatives' in spec:
        msgs = [judge_expect(a, outcomes) for a in spec['alternatives']]
        if any(m is None for m in msgs):
            return None
        return f'matches none of the {len(msgs)} permitted readings; under the first: {msgs[0]}'
    return judge_expect(spec, outcomes)
