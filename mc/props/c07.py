"""C07 - numeric expressions evaluate to their arithmetic value.

Exhaustive product enumeration of expression trees (by operator count) and of token sequences
(malformed family), executed on the real `parse_expression(...).get_value(...)`; every candidate
disagreement is confirmed through the real CLI with a `.8byte <expr>` program (and a constant
definition) before it is reported.
"""
import itertools
import json

from mc import world
from mc.world import Case
from mc import refexpr as R
from mc.probe_isa import probe_isa

ID = 'C07'
LEVEL = 'exploration'
LABELS = {'zz': 0x1234}

ATOMS8 = [0, 1, 2, 3, 7, 255, 256, 'zz']
ATOMS6 = [1, 2, 3, 7, 255, 'zz']
ATOMS4 = [2, 3, 7, 'zz']
ATOMS2 = [2, 7]
UNARY = [('neg',), ('f', -1), ('f', 1)]

LIT_VALUES = [0, 1, 2, 7, 9, 10, 15, 16, 65, 127, 128, 255, 256, 4095, 4096, 65535, 65536, 2**31, 2**32 - 1, 2**32, 2**63]
CHARS = ['A', 'z', '0', '9', '+', '~', 'H', 'b']
MAL_TOKENS = ['1', 'zz', '+', '-', '*', '(', ')', '<<', '&', 'LSB(', '@', '!']


def meta(tier):
    q = tier == 'quick'
    return {
        'rule': 'quoted characters read out of source lines (8 ordinary ones and 15 that mean something elsewhere on a line: blank, tab, ; # : = " ( ) @ $ % . _ [) x 6 expression shapes x {constant, data directive, instruction operand}; expressions of one operator (thorough: two) read out of source lines (.8byte, a constant, an #if condition) with blanks, tabs, or both between the tokens; then: every expression tree with <=N operator nodes over the atom sets (printed minimally parenthesised and '
                'fully parenthesised), every literal value x notation, every token sequence up to the length bound; '
                'non-trivial = a tree with >=2 operators whose minimal rendering needs the stated precedence/associativity '
                '(fewer parentheses than the full rendering) or a malformed token sequence; distinct by construction',
        'bounds': {
            'trees': {'ops<=2': 'atoms ' + str(ATOMS8), 'ops==3': 'atoms ' + str(ATOMS4 if q else ATOMS6),
                      'ops==4': None if q else 'atoms ' + str(ATOMS2)},
            'binary_operators': R.BINOPS, 'unary': ['-', 'LSB', 'BYTE1'], 'byte_functions': 'BYTE0..BYTE3, BYTE7..BYTE9, LSB on a value grid up to 2^80',
            'literal_values': LIT_VALUES, 'notations': R.NOTATIONS + ['chr'], 'chars': CHARS,
            'malformed_token_alphabet': MAL_TOKENS, 'malformed_max_len': 4 if q else 6,
        },
        'assumptions': [
            'seam: parse_expression(text).get_value(scope); every candidate violation is re-run through `bespokeasm compile` '
            'with `.8byte <expr>` and `K = <expr>` and reported only if the CLI reproduces it',
            'IEEE-double division is accepted as the approximation of "real quotient": trees where exact and double '
            'evaluation truncate differently are not judged',
            '% is judged only for non-negative operands (integer or not: a - b*floor(a/b)); division/modulo by zero, negative shift counts and '
            'bitwise operators on non-integers are not judged',
        ],
        'floors': {'evaluations': 1000, 'nontrivial': 100, 'clauses': ['value', 'malformed-rejected', 'literal', 'byte-extract', 'in-directive']},
        'nshards': 64, 'xcheck': 0,
    }


# ------------------------------------------------------------------------------------------------

_seam = None


def seam():
    global _seam
    if _seam is None:
        world._load()
        from bespokeasm.expression import parse_expression
        from bespokeasm.assembler.label_scope import GlobalLabelScope
        from bespokeasm.assembler.line_identifier import LineIdentifier
        lid = LineIdentifier(1, 'verif')
        scope = GlobalLabelScope(set())
        for k, v in LABELS.items():
            scope.set_label_value(k, v, lid)
        _seam = (parse_expression, scope, lid)
    return _seam


class _Hang(Exception):
    pass


def _on_alarm(signum, frame):
    raise _Hang()


_guarded = False


def _guard():
    """A wrong evaluation order can turn a small expression into an astronomically large integer; cap the
    worker's address space and the time per evaluation so that this is reported, not suffered."""
    global _guarded
    if _guarded:
        return
    _guarded = True
    import resource
    import signal
    soft, hard = resource.getrlimit(resource.RLIMIT_AS)
    cap = 3 << 30
    if soft == resource.RLIM_INFINITY or soft > cap:
        resource.setrlimit(resource.RLIMIT_AS, (cap, hard))
    signal.signal(signal.SIGPROF, _on_alarm)      # processor time: the load of the machine never reads as a hang


def eval_real(text):
    import signal
    parse_expression, scope, lid = seam()
    _guard()
    signal.setitimer(signal.ITIMER_PROF, 20)
    try:
        return ('OK', parse_expression(lid, text).get_value(scope, lid))
    except _Hang:
        return ('HANG', 'no answer within 20 s of processor time')
    except MemoryError:
        return ('REJECT', 'MemoryError')
    except SystemExit as e:
        if e.code in (None, 0):
            return ('OK', None)
        return ('REJECT', str(e.code)[:100])
    except RecursionError:
        return ('REJECT', 'RecursionError')
    except Exception as e:
        return ('REJECT', type(e).__name__)
    finally:
        signal.setitimer(signal.ITIMER_PROF, 0)


def atom_tree(a, j):
    if a == 'zz':
        return ('l', 'zz')
    return ('n', a, R.NOTATIONS[j % len(R.NOTATIONS)])


_memo = {}


def trees(size, atoms_key):
    """All trees with exactly `size` operator nodes over the atom list (memoised)."""
    key = (size, atoms_key)
    if key in _memo:
        return _memo[key]
    atoms = {'8': ATOMS8, '6': ATOMS6, '4': ATOMS4, '2': ATOMS2}[atoms_key]
    if size == 0:
        out = [atom_tree(a, i) for i, a in enumerate(atoms)]
    else:
        out = []
        for u in UNARY:
            for t in trees(size - 1, atoms_key):
                out.append(('neg', t) if u[0] == 'neg' else ('f', u[1], t))
        for ls in range(size):
            rs = size - 1 - ls
            for op in R.BINOPS:
                for l in trees(ls, atoms_key):
                    for r in trees(rs, atoms_key):
                        out.append(('b', op, l, r))
    _memo[key] = out
    return out


def top_level(size, atoms_key):
    """Enumerates trees of exactly `size` operators lazily as (left-index, generator) work units."""
    for u in UNARY:
        for i, t in enumerate(trees(size - 1, atoms_key)):
            yield (('neg', t) if u[0] == 'neg' else ('f', u[1], t),)
    for ls in range(size):
        rs = size - 1 - ls
        for op in R.BINOPS:
            for l in trees(ls, atoms_key):
                yield (op, l, rs)


def judge_value(acc, tree, clause):
    try:
        want = R.final_value(tree, LABELS)
    except R.DontCare as d:
        acc.dc(str(d))
        return
    tmin = R.render(tree, True)
    tfull = R.render(tree, False)
    for text in ((tmin, tfull) if tfull != tmin else (tmin,)):
        got = eval_real(text)
        acc.count_eval(1, got[0])
        if got != ('OK', want):
            acc.violation([{'expr': text}], {'expr': text, 'expect': want}, f'{text!r}: expected {want}, got {got}', [got],
                          finding=attribute(text, want, got))
    acc.judge(clause=clause, nontrivial_distinct=(len(tmin) < len(tfull)))
    acc.sample({'expr': tmin, 'fully_parenthesised': tfull, 'expected': want})


def shard(acc, tier, idx, n):
    q = tier == 'quick'
    ctr = 0
    directive_contexts(acc, idx, n, q)
    source_characters(acc, idx, n)
    # ---- trees ---------------------------------------------------------------------------------
    plan = [(0, '8'), (1, '8'), (2, '8'), (3, '4' if q else '6')]
    if not q:
        plan.append((4, '2'))
    for size, ak in plan:
        if size == 0:
            for t in trees(0, ak):
                ctr += 1
                if ctr % n == idx:
                    judge_value(acc, t, 'value')
            continue
        for unit in top_level(size, ak):
            ctr += 1
            if ctr % n != idx:
                continue
            if len(unit) == 1:
                judge_value(acc, unit[0], 'value')
            else:
                op, l, rs = unit
                for r in trees(rs, ak):
                    judge_value(acc, ('b', op, l, r), 'value')
    # ---- literals ------------------------------------------------------------------------------
    for v in LIT_VALUES:
        for nt in R.NOTATIONS:
            ctr += 1
            if ctr % n != idx:
                continue
            a = ('n', v, nt)
            for t in (a, ('b', '+', a, ('n', 1, 'dec')), ('b', '*', ('n', 2, 'dec'), a), ('neg', a), ('f', 1, a)):
                judge_value(acc, t, 'literal')
    for ch in CHARS:
        ctr += 1
        if ctr % n != idx:
            continue
        a = ('n', ord(ch), 'chr')
        for t in (a, ('b', '+', a, ('n', 1, 'dec')), ('b', '-', a, ('n', ord('A'), 'chr'))):
            judge_value(acc, t, 'literal')
    # ---- byte extraction on a value grid ---------------------------------------------------------
    grid = [0, 1, 127, 128, 255, 256, 0x1234, 0xFFFF, 0x10000, 0x12345678, 2**32, 2**40 + 5, 2**63, 2**64 - 1, 2**64, 2**70 + 0x1234, 0x12345 << 64]
    for v in grid:
        for neg in (False, True):
            for fn in (-1, 0, 1, 2, 3, 7, 8, 9):
                ctr += 1
                if ctr % n != idx:
                    continue
                a = ('n', v, 'dec')
                judge_value(acc, ('f', fn, ('neg', a) if neg else a), 'byte-extract')
                judge_value(acc, ('f', fn, ('b', '-', ('n', 0, 'dec'), a) if neg else ('b', '+', a, ('n', 0, 'dec'))), 'byte-extract')
    # ---- malformed / well-formed token sequences --------------------------------------------------
    maxlen = 4 if q else 6
    for ln in range(0, maxlen + 1):
        for seq in itertools.product(MAL_TOKENS, repeat=ln):
            ctr += 1
            if ctr % n != idx:
                continue
            text = ' '.join(seq)
            tree = R.recognise(list(seq))
            if tree is None:
                got = eval_real(text)
                acc.count_eval(1, got[0])
                if got[0] != 'REJECT':
                    acc.violation([{'expr': text}], {'expr': text, 'expect': 'REJECT'},
                                  f'malformed {text!r} was given the value {got[1]}', [got], finding=attribute(text, 'REJECT', got))
                acc.judge(clause='malformed-rejected', nontrivial_distinct=True)
                if ln == maxlen:
                    acc.sample({'malformed': text}, limit=4)
            else:
                try:
                    want = R.final_value(tree, LABELS)
                except R.DontCare:
                    acc.dc('token-sequence tree undefined')
                    continue
                got = eval_real(text)
                acc.count_eval(1, got[0])
                if got != ('OK', want):
                    acc.violation([{'expr': text}], {'expr': text, 'expect': want}, f'{text!r}: expected {want}, got {got}', [got],
                                  finding=attribute(text, want, got))
                acc.judge(clause='wellformed-sequence')


def directive_contexts(acc, idx, n, q):
    """The same expressions where the assembler reads them out of a source line - a data directive, a constant, a fill count, a
    condition - with blanks, tabs or both between the tokens: the value is the value of the expression, whatever separates its tokens."""
    seps = (' ', '\t', ' \t ')
    ctr = 0
    for t in trees(1, '8') if q else itertools.chain(trees(1, '8'), trees(2, '2')):
        ctr += 1
        if ctr % n != idx:
            continue
        try:
            want = R.final_value(t, LABELS)
        except R.DontCare:
            continue
        text = R.render(t)
        if ' ' not in text or "'" in text:
            continue
        if not (-(1 << 63) <= want < (1 << 64)):
            continue
        for sep in seps:
            e = text.replace(' ', sep)
            # (a condition reads preprocessor symbols, not labels: the #if context is used for label-free expressions with a non-negative value)
            cond = 'zz' not in e and want >= 0
            src = f'zz = 4660\n    .8byte {e}\nKD = {e}\n    .8byte KD\n' + (f'#if {e} == {want}\n    .byte 1\n#else\n    .byte 2\n#endif\n' if cond else '')
            case = Case(ISA, src)
            out = acc.run(case)
            img = (want % (1 << 64)).to_bytes(8, 'big')
            spec = {'type': 'program', 'expect': 'OK', 'image_hex': (img + img + (b'\x01' if cond else b'')).hex(), 'expr': e}
            from mc.judges import judge_expect
            m = judge_expect(spec, [out])
            if m:
                acc.violation([case], spec, f'{e!r} in a data directive / constant / condition: {m}', [out])
            acc.judge(clause='in-directive', nontrivial_distinct=(sep != ' '))


def source_characters(acc, idx, n):
    """A quoted character read out of a source file denotes its code point, also when the character is one that means something
    elsewhere on a line (blank, tab, comment sign, directive sign, label colon, quote of the other kind...)."""
    from mc.judges import judge_expect
    ctr = 0
    for ch in CHARS + [' ', '\t', ';', '#', ':', '=', '"', '(', ')', '@', '$', '%', '.', '_', '[']:
        lit = f"'{ch}'"
        for k, (tmpl, f) in enumerate(((('{}'), lambda v: v), ('{}*2+1', lambda v: v * 2 + 1), ('-{}+10', lambda v: 10 - v), ('{} % 4', lambda v: v % 4),
                                       ('LSB({})', lambda v: v & 0xFF), ('1 + {}', lambda v: v + 1))):
            ctr += 1
            if ctr % n != idx:
                continue
            e = tmpl.format(lit)
            want = f(ord(ch))
            ins = ch not in ',[' and want >= 0 and want < 256
            # (a data list that opens with a quote is read as a string: known finding F24b of C11; there the expression goes through a constant only)
            direct = not e.startswith("'")
            src = (f'    .8byte {e}\n' if direct else '') + f'KD = {e}\n    .8byte KD\n' + (f'    ldi a, {e}\n' if ins else '')
            case = Case(ISA, src)
            out = acc.run(case)
            img = (want % (1 << 64)).to_bytes(8, 'big')
            spec = {'type': 'program', 'expect': 'OK', 'image_hex': ((img if direct else b'') + img + (bytes([0xA0, want]) if ins else b'')).hex(), 'expr': e}
            m = judge_expect(spec, [out])
            if m:
                acc.violation([case], spec, f'{e!r} read from a source line: {m}', [out])
            acc.judge(clause='in-directive', nontrivial_distinct=True)


def attribute(text, want, got):
    return None


# ------------------------------------------------------------------------------------------------
# confirmation through the real CLI

ISA = probe_isa(address_size=16, endian='big')


def _programs(expr):
    return [
        Case(ISA, f'zz = 4660\n.8byte {expr}\n'),
        Case(ISA, f'zz = 4660\nK = {expr}\n.8byte K\n'),
    ]


def judge(spec, outcomes):
    """spec: {'expr', 'expect': int | 'REJECT'}; outcomes: one Outcome of a `.8byte` program."""
    if spec.get('type') == 'program':
        from mc.judges import judge_expect
        return judge_expect(spec, outcomes)
    o = outcomes[0]
    want = spec['expect']
    if want == 'REJECT':
        if o.status == 'OK':
            return f'malformed expression {spec["expr"]!r} was assembled (image {o.image.hex() if o.image else None})'
        return None
    img = (want % (1 << 64)).to_bytes(8, 'big')
    if o.status != 'OK':
        return f'well-formed expression {spec["expr"]!r} (= {want}) was rejected: {o.detail}'
    if o.image != img:
        return f'expression {spec["expr"]!r}: expected {want} -> {img.hex()}, image is {o.image.hex() if o.image is not None else None}'
    return None


def confirm(viol):
    spec = viol['spec']
    if spec.get('type') == 'program':
        o = world.run_cli(Case.from_json(viol['cases'][0]))
        return judge(spec, [o]), [o]
    outs = []
    first = None
    for case in _programs(spec['expr']):
        o = world.run_cli(case)
        outs.append(o)
        m = judge(spec, [o])
        if m and first is None:
            first = m
    viol['cases'] = [c.to_json() for c in _programs(spec['expr'])]
    return first, outs
