"""C06 - label references resolve only within their lexical scope.

History exploration over definitions and references of global / file / local labels and constants,
scope-resetting directives, ill-named labels and includes of a catalogue of small files; names
collide by construction.  The reference scope resolver of mc/refasm.py predicts the value or the
rejection.
"""
import itertools

from mc import refasm as R
from mc.histories import histories, run_program
from mc.probe_isa import probe_isa

ID = 'C06'
LEVEL = 'model_checking'

ZONES = [{'name': 'zz', 'start': 0x80, 'end': 0xBF}]
PARAMS = R.Params(address_size=16, endian='little', zones=ZONES, constants=[{'name': 'PRE', 'value': 0x5A}])
ISA = probe_isa(16, 'little', zones=ZONES, constants=PARAMS.constants)

INCLUDES = [
    [('label', '_f1'), ('nop',), ('data', 1, [('lab', '_f1')])],                       # own file label, same name as includer's
    [('data', 1, [('lab', '_f1')])],                                                    # includer's file label: invisible
    [('data', 1, [('lab', '.l1')])],                                                    # includer's local label: invisible
    [('label', 'G2'), ('nop',), ('label', '.l1'), ('nop',), ('data', 1, [('lab', '.l1')])],
    [('data', 2, [('lab', 'G1')])],                                                     # global of the includer (before or after)
    [('const', '_k', 0x53), ('data', 1, [('lab', '_k')])],
]

BAD = [('label', 'a'), ('label', 'fill'), ('label', '_byte'), ('label', '.zero'), ('label', 'LSB'), ('const', 'sp', 1)]


def sigma(i):
    return (
        [('def', n) for n in ('G1', 'G2', '_f1', '.l1', '.l2', 'g1')] +        # g1: a different name from G1 (labels are case sensitive)
        [('const', 'K', 0x51), ('const', '_k', 0x52), ('const', 'Z0', 0)] +        # a constant is a constant whatever its value (0 included)
        [('ref', n) for n in ('G1', '_f1', '.l1', '.l2', 'K', '_k', 'PRE', 'g1')] +
        [('defref', 'G2', '.l1'), ('defref', '_f1', '.l2')] +         # `G2: .byte .l1`: the statement belongs to the region its label opens
        [('org', 0x20 + 8 * i, None), ('memzone', 'zz')] +
        [('include', f'inc{j}.asm') for j in range(len(INCLUDES))] +
        [('bad', j) for j in range(len(BAD))]
    )


NSYM = len(sigma(0))
CORE_IDX = [i for i, s in enumerate(sigma(0)) if s in (
    ('def', 'G1'), ('def', 'G2'), ('def', '.l1'), ('def', '_f1'), ('ref', 'G1'), ('ref', '.l1'), ('ref', '_f1'), ('const', 'K', 0x51),
    ('ref', 'K'), ('org', 0x20, None), ('memzone', 'zz'), ('include', 'inc0.asm'), ('include', 'inc2.asm'), ('include', 'inc3.asm'))]
MONOTONE = ('defined twice', 'is a keyword', 'is a register', 'without an enclosing', 'included more than once')


def meta(tier):
    q = tier == 'quick'
    return {
        'rule': 'every history over the 32-symbol alphabet (one constant has the value 0) (definitions = label + nop so that every definition has its own address, '
                'references = .byte name, constants, .org, .memzone, 6 catalogue includes, 6 ill-named labels) up to the depth '
                'bound, each in two variants (as is / with closing definitions for referenced-but-undefined global and file '
                'labels, which makes them forward references); expected = value of the unique visible definition or rejection; '
                'plus labels / constants named like a register under 4 register spellings (lower, upper, mixed case) x 5 positions (must be rejected) and near-miss names (accepted); plus 8 kinds of reference (visible and invisible: other region, other file, cut off by an origin, undefined) x 4 uses x {muted, unmuted} x {main file, included file}; every subset of {nm, _nm, .nm} defined x each of the three referenced x 3 places x 2 uses (three different names); invisible local / file labels inside the brackets of an indirect operand while a global label has the same name without the prefix; non-trivial = history in which one name is defined in two scopes or referenced outside the defining scope; '
                'states = distinct reference label tables',
        'bounds': {'alphabet': [str(s) for s in sigma(0)], 'depth_full': 3 if q else 4, 'depth_core': 4 if q else 5,
                   'core_alphabet': [str(sigma(0)[i]) for i in CORE_IDX],
                   'include_catalogue': [R.render(f) for f in INCLUDES], 'ill_named': [R.render_stmt(b) for b in BAD]},
        'assumptions': ['reference scope resolver: mc/refasm.py'],
        'floors': {'evaluations': 1000, 'nontrivial': 100, 'statuses': ['OK', 'REJECT'],
                   'clauses': ['resolved', 'rejected-invisible', 'rejected-duplicate', 'rejected-name', 'rejected-local-without-parent']},
        'nshards': 64,
    }


def build(h, closed):
    stmts = []
    files = {}
    defined, referenced = set(), set()
    for i, j in enumerate(h):
        s = sigma(i)[j]
        k = s[0]
        if k == 'def':
            stmts += [('label', s[1]), ('nop',)]
            defined.add(s[1])
        elif k == 'defref':
            stmts.append(('sameline', ('label', s[1]), ('data', 1, [('lab', s[2])])))
            defined.add(s[1])
            referenced.add(s[2])
        elif k == 'ref':
            stmts.append(('data', 1, [('lab', s[1])]))
            referenced.add(s[1])
        elif k == 'bad':
            stmts += [BAD[s[1]], ('nop',)]
        elif k == 'include':
            files[s[1]] = INCLUDES[int(s[1][3])]
            stmts.append(s)
        else:
            stmts.append(s)
    extra = False
    if closed:
        for name in ('G1', '_f1'):
            if name in referenced and name not in defined:
                stmts += [('label', name), ('nop',)]
                extra = True
    stmts.append(('data', 1, [0xEE]))
    files['main.asm'] = stmts
    return files, extra


def clause(r):
    if r.status == 'OK':
        return 'resolved'
    if 'no visible definition' in r.reason:
        return 'rejected-invisible'
    if 'defined twice' in r.reason:
        return 'rejected-duplicate'
    if 'keyword' in r.reason or 'register' in r.reason:
        return 'rejected-name'
    if 'without an enclosing' in r.reason:
        return 'rejected-local-without-parent'
    return 'rejected-other'


def collides(h):
    names = []
    for i, j in enumerate(h):
        s = sigma(i)[j]
        if s[0] in ('def', 'ref'):
            names.append(s[1])
        elif s[0] == 'include':
            names += {'inc0.asm': ['_f1'], 'inc1.asm': ['_f1'], 'inc2.asm': ['.l1'], 'inc3.asm': ['G2', '.l1'], 'inc4.asm': ['G1'],
                      'inc5.asm': ['_k']}[s[1]]
        elif s[0] == 'const':
            names.append(s[1])
    return len(names) != len(set(names))


def shard(acc, tier, idx, n):
    q = tier == 'quick'
    d_full = 3 if q else 4
    d_core = 4 if q else 5

    def ok(h):
        r = R.assemble(PARAMS, build(h, False)[0])
        return not (r.status == 'REJECT' and any(m in r.reason for m in MONOTONE))

    for alphabet, depth in ((list(range(NSYM)), d_full), (CORE_IDX, d_core)):
        for h in histories(alphabet, depth, idx, n, prefix_ok=ok):
            if alphabet is CORE_IDX and len(h) <= d_full:
                continue
            nt = h if collides(h) else None
            files, _ = build(h, False)
            ref, out, msg = run_program(acc, PARAMS, ISA, files, clause=clause, nontrivial=nt, sample=(len(h) == depth))
            acc.state(tuple(sorted(ref.labels.items())) if False else (ref.status, ref.state_key[4] if ref.state_key else None))
            files2, extra = build(h, True)
            if extra:
                run_program(acc, PARAMS, ISA, files2, clause=clause, nontrivial=(h, 'closed') if nt else None, sample=False)
    register_names(acc, idx, n)
    muted_references(acc, idx, n)
    bracketed_references(acc, idx, n)
    prefix_twins(acc, idx, n)


def prefix_twins(acc, idx, n):
    """nm, _nm and .nm are three different names: every subset of the three defined (the global one in the main file or in an included
    one), each of the three referenced from the region of the local one, from an included file and from a later region."""
    ctr = 0
    kinds = ('nm', '_nm', '.nm')
    uses = [lambda r: ('data', 1, [('lab', r)]), lambda r: ('data', 2, [('lab+', r, 1)])]
    for mask, gdef, ref, place, ui in itertools.product(range(8), ('main', 'inc'), kinds, ('same', 'inc', 'after'), range(2)):
        if gdef == 'inc' and not mask & 1:
            continue
        ctr += 1
        if ctr % n != idx:
            continue
        use = uses[ui](ref)
        main = [('label', 'first'), ('nop',)]
        if mask & 4:
            main += [('label', '.nm'), ('nop',)]
        if mask & 2:
            main += [('label', '_nm'), ('nop',)]
        if place == 'same':
            main.append(use)
        inc = [('nop',)]
        if mask & 1 and gdef == 'inc':
            inc += [('label', 'nm'), ('nop',)]
        if place == 'inc':
            inc.append(use)
        main.append(('include', 'tw.asm'))
        if mask & 1 and gdef == 'main':
            main += [('label', 'nm'), ('nop',)]
        else:
            main += [('label', 'second'), ('nop',)]
        if place == 'after':
            main.append(use)
        main.append(('data', 1, [0xEE]))
        run_program(acc, PARAMS, ISA, {'main.asm': main, 'tw.asm': inc}, clause=clause,
                    nontrivial=('twins', mask, gdef, ref, place, ui), sample=(ctr % 23 == 0))


def register_names(acc, idx, n):
    """A label or constant named exactly like a register of the definition is rejected, however the definition spells its registers
    (lower case, upper case, mixed) and wherever the label stands (own line, in front of a statement, constant, second in the file,
    in an included file); the same names with one more character are ordinary names."""
    import itertools
    from mc.judges import judge_expect
    from mc.world import Case
    ctr = 0
    for regs in (('a', 'x', 'sp'), ('A', 'X', 'SP'), ('Ra', 'rX', 'Sp'), ('acc', 'IX')):
        isa = {'general': {'address_size': 16, 'endian': 'little', 'registers': list(regs), 'min_version': '0.3.0'},
               'operand_sets': {'imm': {'operand_values': {'i': {'type': 'numeric', 'argument': {'size': 8, 'byte_align': True}}}}},
               'instructions': {'nop': {'bytecode': {'value': 0xEA, 'size': 8}}}}
        for r in regs:
            forms = {
                'label on its own line': [f'{r}:', '    nop'],
                'label in front of a statement': [f'{r}: nop'],
                'constant': [f'{r} = 5', '    nop'],
                'label after other definitions': ['first:', '    nop', 'K1 = 2', f'{r}:', '    nop'],
                'label in an included file': ['first:', '    nop', '#include "rn.asm"'],
            }
            for fname, lines in forms.items():
                ctr += 1
                if ctr % n != idx:
                    continue
                files = {'main.asm': '\n'.join(lines + ['    .byte $EE']) + '\n'}
                if 'include' in fname:
                    files['rn.asm'] = f'{r}:\n    nop\n'
                case = Case(isa, files)
                out = acc.run(case)
                acc.transition()
                spec = {'expect': 'REJECT', 'why': f'{r} is a register of the definition (registers {list(regs)})', 'form': fname}
                msg = judge_expect(spec, [out])
                if msg:
                    acc.violation([case], spec, f'{fname} named {r} with registers {list(regs)}: {msg}', [out])
                acc.judge(clause='rejected-name', nontrivial_key=('regname', regs, r, fname))
            for other in (r + '1', r + '_', '_' + r, 'q' + r):
                ctr += 1
                if ctr % n != idx:
                    continue
                case = Case(isa, f'{other}:\n    nop\n    .2byte {other}\n')
                out = acc.run(case)
                acc.transition()
                spec = {'expect': 'OK', 'image_hex': 'ea0000', 'why': f'{other} is not a register name'}
                msg = judge_expect(spec, [out])
                if msg:
                    acc.violation([case], spec, f'label {other} with registers {list(regs)}: {msg}', [out])
                acc.judge(clause='resolved', nontrivial_key=('regname-ok', regs, other))


def muted_references(acc, idx, n):
    """A reference is resolved the same way whether or not its line is muted: every kind of invisible definition, written inside a
    #mute ... #unmute block, is still rejected, and a visible one is accepted (its bytes simply do not reach the image)."""
    ctr = 0
    refs = [('G1', True), ('.l1', False), ('_f1', True), ('nowhere', False), ('.cut', False), ('_fi', False), ('.li', False), ('K', True)]
    uses = [lambda r: ('data', 1, [('lab', r)]), lambda r: ('data', 2, [('lab+', r, 1)]), lambda r: ('ldi', 'a', ('lab', r)), lambda r: ('jmp', ('lab', r))]
    for (name, visible), ui, muted, where in itertools.product(refs, range(len(uses)), (False, True), ('main', 'included')):
        ctr += 1
        if ctr % n != idx:
            continue
        use = uses[ui](name)
        body = ([('mute',)] if muted else []) + [use] + ([('unmute',)] if muted else [])
        inc = [('label', '_fi'), ('nop',), ('label', 'GI'), ('label', '.li'), ('nop',)]
        main = [('const', 'K', 0x51), ('label', 'G1'), ('nop',), ('label', '.l1'), ('nop',), ('label', '_f1'), ('nop',),
                ('label', 'G2'), ('label', '.cut'), ('nop',), ('org', 0x30, None)]
        if where == 'main':
            files = {'main.asm': main + [('include', 'ri.asm')] + body + [('data', 1, [0xEE])], 'ri.asm': inc}
        else:
            # the reference sits in the included file: only globals of the includer are visible there
            if name in ('_f1',):
                visible_here = False
            elif name in ('_fi', '.li'):
                visible_here = True
            else:
                visible_here = visible
            files = {'main.asm': main + [('include', 'ri.asm'), ('data', 1, [0xEE])], 'ri.asm': inc + body}
        ref, out, msg = run_program(acc, PARAMS, ISA, files, clause=clause, nontrivial=('muted-ref', name, ui, muted, where), sample=(ctr % 17 == 0))


def bracketed_references(acc, idx, n):
    """A local or file label written inside the brackets of an indirect operand is still that label: with no visible definition it is
    rejected, also when a global label has the same name without the prefix (what happens when the definition is visible is left to
    the operand-matching properties)."""
    from mc.judges import judge_expect
    from mc.props import c10
    from mc.world import Case
    ctr = 0
    for ref, kind in (('.buf', 'local label of another region'), ('.nowhere', 'local label defined nowhere'), ('_fbuf', 'file label of the included file'),
                      ('.ibuf', 'local label of the included file')):
        for use in ('ldm [{}]', 'ldm [ {} ]', 'ldm [{}+1]', 'jmp {}', 'ldi a, {}'):
            ctr += 1
            if ctr % n != idx:
                continue
            main = ['first:', '.buf: nop', 'second:', '    nop', 'buf: nop', 'nowhere: nop', 'fbuf: nop', 'ibuf: nop', '#include "br.asm"', 'third:',
                    '    ' + use.format(ref), '    .byte $EE']
            files = {'main.asm': '\n'.join(main) + '\n', 'br.asm': '_fbuf: nop\ngi:\n.ibuf: nop\n'}
            case = Case(dict(c10.BASE_ISA), files)
            out = acc.run(case)
            acc.transition()
            spec = {'expect': 'REJECT', 'why': f'{ref} ({kind}) has no visible definition where it is used', 'use': use.format(ref)}
            msg = judge_expect(spec, [out])
            if msg:
                acc.violation([case], spec, f'{use.format(ref)!r} - {kind}: {msg}', [out])
            acc.judge(clause='rejected-invisible', nontrivial_key=('bracket', ref, use))


def judge(spec, outcomes):
    from mc.judges import judge_expect
    return judge_expect(spec, outcomes)
