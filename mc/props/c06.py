"""C06 - label references resolve only within their lexical scope.

History exploration over definitions and references of global / file / local labels and constants,
scope-resetting directives, ill-named labels and includes of a catalogue of small files; names
collide by construction.  The reference scope resolver of mc/refasm.py predicts the value or the
rejection.
"""
from mc import refasm as R
from mc.histories import histories, run_program
from mc.probe_isa import probe_isa

ID = 'C06'
LEVEL = 'model_checking'

ZONES = [{'name': 'zz', 'start': 0x80, 'end': 0xBF}]
PARAMS = R.Params(address_size=16, endian='little', zones=ZONES, constants=[{'name': 'PRE', 'value': 0x5A}])
ISA = probe_isa(16, 'little', zones=ZONES, constants=PARAMS.constants)

INCLUDES = [
    [('label', '_f1'), ('nop',), ('data', 1, [('lab', '_f1')])],                       # own file label, same name as includer's
    [('data', 1, [('lab', '_f1')])],                                                    # includer's file label: invisible
    [('data', 1, [('lab', '.l1')])],                                                    # includer's local label: invisible
    [('label', 'G2'), ('nop',), ('label', '.l1'), ('nop',), ('data', 1, [('lab', '.l1')])],
    [('data', 2, [('lab', 'G1')])],                                                     # global of the includer (before or after)
    [('const', '_k', 0x53), ('data', 1, [('lab', '_k')])],
]

BAD = [('label', 'a'), ('label', 'fill'), ('label', '_byte'), ('label', '.zero'), ('label', 'LSB'), ('const', 'sp', 1)]


def sigma(i):
    return (
        [('def', n) for n in ('G1', 'G2', '_f1', '.l1', '.l2', 'g1')] +        # g1: a different name from G1 (labels are case sensitive)
        [('const', 'K', 0x51), ('const', '_k', 0x52)] +
        [('ref', n) for n in ('G1', '_f1', '.l1', '.l2', 'K', '_k', 'PRE', 'g1')] +
        [('defref', 'G2', '.l1'), ('defref', '_f1', '.l2')] +         # `G2: .byte .l1`: the statement belongs to the region its label opens
        [('org', 0x20 + 8 * i, None), ('memzone', 'zz')] +
        [('include', f'inc{j}.asm') for j in range(len(INCLUDES))] +
        [('bad', j) for j in range(len(BAD))]
    )


NSYM = len(sigma(0))
CORE_IDX = [i for i, s in enumerate(sigma(0)) if s in (
    ('def', 'G1'), ('def', 'G2'), ('def', '.l1'), ('def', '_f1'), ('ref', 'G1'), ('ref', '.l1'), ('ref', '_f1'), ('const', 'K', 0x51),
    ('ref', 'K'), ('org', 0x20, None), ('memzone', 'zz'), ('include', 'inc0.asm'), ('include', 'inc2.asm'), ('include', 'inc3.asm'))]
MONOTONE = ('defined twice', 'is a keyword', 'is a register', 'without an enclosing', 'included more than once')


def meta(tier):
    q = tier == 'quick'
    return {
        'rule': 'every history over the 31-symbol alphabet (definitions = label + nop so that every definition has its own address, '
                'references = .byte name, constants, .org, .memzone, 6 catalogue includes, 6 ill-named labels) up to the depth '
                'bound, each in two variants (as is / with closing definitions for referenced-but-undefined global and file '
                'labels, which makes them forward references); expected = value of the unique visible definition or rejection; '
                'non-trivial = history in which one name is defined in two scopes or referenced outside the defining scope; '
                'states = distinct reference label tables',
        'bounds': {'alphabet': [str(s) for s in sigma(0)], 'depth_full': 3 if q else 4, 'depth_core': 4 if q else 5,
                   'core_alphabet': [str(sigma(0)[i]) for i in CORE_IDX],
                   'include_catalogue': [R.render(f) for f in INCLUDES], 'ill_named': [R.render_stmt(b) for b in BAD]},
        'assumptions': ['reference scope resolver: mc/refasm.py'],
        'floors': {'evaluations': 1000, 'nontrivial': 100, 'statuses': ['OK', 'REJECT'],
                   'clauses': ['resolved', 'rejected-invisible', 'rejected-duplicate', 'rejected-name', 'rejected-local-without-parent']},
        'nshards': 64,
    }


def build(h, closed):
    stmts = []
    files = {}
    defined, referenced = set(), set()
    for i, j in enumerate(h):
        s = sigma(i)[j]
        k = s[0]
        if k == 'def':
            stmts += [('label', s[1]), ('nop',)]
            defined.add(s[1])
        elif k == 'defref':
            stmts.append(('sameline', ('label', s[1]), ('data', 1, [('lab', s[2])])))
            defined.add(s[1])
            referenced.add(s[2])
        elif k == 'ref':
            stmts.append(('data', 1, [('lab', s[1])]))
            referenced.add(s[1])
        elif k == 'bad':
            stmts += [BAD[s[1]], ('nop',)]
        elif k == 'include':
            files[s[1]] = INCLUDES[int(s[1][3])]
            stmts.append(s)
        else:
            stmts.append(s)
    extra = False
    if closed:
        for name in ('G1', '_f1'):
            if name in referenced and name not in defined:
                stmts += [('label', name), ('nop',)]
                extra = True
    stmts.append(('data', 1, [0xEE]))
    files['main.asm'] = stmts
    return files, extra


def clause(r):
    if r.status == 'OK':
        return 'resolved'
    if 'no visible definition' in r.reason:
        return 'rejected-invisible'
    if 'defined twice' in r.reason:
        return 'rejected-duplicate'
    if 'keyword' in r.reason or 'register' in r.reason:
        return 'rejected-name'
    if 'without an enclosing' in r.reason:
        return 'rejected-local-without-parent'
    return 'rejected-other'


def collides(h):
    names = []
    for i, j in enumerate(h):
        s = sigma(i)[j]
        if s[0] in ('def', 'ref'):
            names.append(s[1])
        elif s[0] == 'include':
            names += {'inc0.asm': ['_f1'], 'inc1.asm': ['_f1'], 'inc2.asm': ['.l1'], 'inc3.asm': ['G2', '.l1'], 'inc4.asm': ['G1'],
                      'inc5.asm': ['_k']}[s[1]]
        elif s[0] == 'const':
            names.append(s[1])
    return len(names) != len(set(names))


def shard(acc, tier, idx, n):
    q = tier == 'quick'
    d_full = 3 if q else 4
    d_core = 4 if q else 5

    def ok(h):
        r = R.assemble(PARAMS, build(h, False)[0])
        return not (r.status == 'REJECT' and any(m in r.reason for m in MONOTONE))

    for alphabet, depth in ((list(range(NSYM)), d_full), (CORE_IDX, d_core)):
        for h in histories(alphabet, depth, idx, n, prefix_ok=ok):
            if alphabet is CORE_IDX and len(h) <= d_full:
                continue
            nt = h if collides(h) else None
            files, _ = build(h, False)
            ref, out, msg = run_program(acc, PARAMS, ISA, files, clause=clause, nontrivial=nt, sample=(len(h) == depth))
            acc.state(tuple(sorted(ref.labels.items())) if False else (ref.status, ref.state_key[4] if ref.state_key else None))
            files2, extra = build(h, True)
            if extra:
                run_program(acc, PARAMS, ISA, files2, clause=clause, nontrivial=(h, 'closed') if nt else None, sample=False)


def judge(spec, outcomes):
    from mc.judges import judge_expect
    return judge_expect(spec, outcomes)
