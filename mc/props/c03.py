"""C03 - the binary image is a faithful window onto the assembled memory map.

Programs = every accepted history over a small line alphabet up to the depth bound; on top of each,
*every* (start, end) window over the program's address range (+2) and the fill values.
"""
from mc import refasm as R
from mc.histories import histories
from mc.judges import expect_spec, judge_expect
from mc.probe_isa import probe_isa
from mc.world import Case

ID = 'C03'
LEVEL = 'model_checking'

ZONES = [{'name': 'zz', 'start': 16, 'end': 23}]
CONFIGS = [
    ('plain', R.Params(address_size=8, endian='little', zones=ZONES)),
    ('data', R.Params(address_size=8, endian='big', zones=ZONES,
                      data=[{'name': 'blk', 'address': 9, 'value': 0x77, 'size': 2}])),
    ('origin', R.Params(address_size=8, endian='little', zones=ZONES, origin=3)),
    # a small GLOBAL zone (0..13, no other zone): windows may end beyond the addressable memory
    ('global-13', R.Params(address_size=8, endian='little', zones=[{'name': 'GLOBAL', 'start': 0, 'end': 13}])),
    # a GLOBAL zone that starts above 0: windows may start below every address a line can have
    ('global-from-4', R.Params(address_size=8, endian='little', origin=4, zones=ZONES + [{'name': 'GLOBAL', 'start': 4, 'end': 60}])),
]


def isa_of(p):
    return probe_isa(p.address_size, p.endian, origin=p.origin or None, zones=p.zones or None, data=p.data or None)


def sigma(i):
    """Line alphabet; `i` is the position, used to make the marker bytes unique."""
    m = 0x21 + 4 * i
    return [
        ('data', 1, [m]),
        ('data', 1, [m, 0, m + 2]),          # an emitted zero byte is not a missing byte
        ('ldi', 'a', m),
        ('org', 12, None),
        ('org', 5, None),
        ('memzone', 'zz'),
        ('mute',),
        ('unmute',),
        ('label', f'lb{i}'),
        ('fill', 0, 7),
        ('comment', 'c'),
        ('data', 1, [m, 0]),              # ends in a byte equal to the fill value 00 ...
        ('fill', 2, 0xFF),                # ... and to the fill value ff: emitted bytes, whatever the fill is
    ]


NSYM = len(sigma(0))
FILLS = [0xFF, 0x1A5, 0]


def meta(tier):
    q = tier == 'quick'
    return {
        'rule': 'programs: every history over the 13-symbol line alphabet (incl. lines whose last byte equals a fill value) up to the depth bound under 5 configurations '
                '(plain / predefined data block / non-zero default origin / a GLOBAL zone ending at 13, so that windows reach beyond the addressable memory / a GLOBAL zone starting at 4, so that windows start below it) that the reference accepts; windows: every start in '
                '[0, top+2] x every end in {absent} U [start-1, top+2] (top = highest emitted address) x fill values, the number of -v flags (0..3) rotating with the window, every other window written over an existing 25-byte file; '
                'plus the repository\'s example programs under their own definitions (quick: every third), windows from a boundary set around the first, middle and last emitted address, each the slice of the whole memory map; non-trivial = a window that cuts through a multi-byte line, or covers a gap / muted byte, or lies beyond the code; '
                'states = distinct (memory map, muted map) pairs',
        'bounds': {'alphabet': [R.render_stmt(s) for s in sigma(0)], 'depth': 2 if q else 3,
                   'depth_single_fill': 3 if q else 4, 'fills': FILLS, 'configs': [c[0] for c in CONFIGS]},
        'assumptions': ['reference memory map: mc/refasm.py; muted lines occupy addresses but emit nothing',
                        'windows with end < start-1 are not generated (the statement gives them a negative length)'],
        'floors': {'evaluations': 1000, 'nontrivial': 100, 'statuses': ['OK'], 'clauses': ['window', 'default-end', 'empty-window']},
        'nshards': 64,
    }


def program(hist_idx):
    return [sigma(i)[j] for i, j in enumerate(hist_idx)]


def shard(acc, tier, idx, n):
    q = tier == 'quick'
    d_all = 2 if q else 3
    d_one = 3 if q else 4
    corpus_windows(acc, idx, n, q)
    for ci, (cname, params) in enumerate(CONFIGS):
        isa = isa_of(params)
        rejected = set()

        def ok(h):
            stmts = program(h)
            r = R.assemble(params, {'main.asm': stmts})
            return r.status != 'REJECT'

        for h in histories(list(range(NSYM)), d_one, idx, n, prefix_ok=ok):
            stmts = program(h)
            files = {'main.asm': stmts}
            ref = R.assemble(params, files)
            if ref.status != 'OK':
                if ref.status == 'DC':
                    acc.dc(ref.reason)
                continue
            acc.state((tuple(sorted(ref.mem.items())), tuple(sorted(ref.muted_mem.items()))))
            text = R.render_files(files)
            top = max(list(ref.mem) + list(ref.muted_mem) + [0])
            fills = FILLS if len(h) <= d_all else [FILLS[(len(h) + sum(h)) % 2]]
            if ci > 0 and len(h) > d_all:
                continue            # the deepest level only under the plain configuration
            multi = [(l.addr, l.addr + l.size - 1) for l in ref.lines if l.size > 1 and not l.muted]
            for fill in fills:
                for start in range(0, top + 3):
                    for end in [None] + list(range(max(start - 1, 0), top + 3)):   # -e -1 means "absent" on the command line
                        # the image does not depend on how much is logged: -v count rotates with the window
                        case = Case(isa, text, start=start, end=end, fill=fill, verbose=(start + (0 if end is None else end + 1)) % 4,
                                    preseed=(start + len(h)) % 2 == 0)      # ... and every other window is written over an existing, longer file
                        out = acc.run(case)
                        acc.transition()
                        spec = expect_spec(ref, start, end, fill)
                        msg = judge_expect(spec, [out])
                        if msg:
                            acc.violation([case], spec, f'window start={start} end={end} fill={fill}: {msg}', [out])
                        hi = end if end is not None else (max(ref.mem) if ref.mem else start - 1)
                        cuts = any((a < start <= b) or (a <= hi < b) for a, b in multi)
                        gap = any(x not in ref.mem for x in range(start, hi + 1))
                        clause = 'default-end' if end is None else ('empty-window' if end < start else 'window')
                        acc.judge(clause=clause, nontrivial_key=(ci, h, start, end, fill) if (cuts or gap) else None)
            acc.sample({'config': cname, 'program': text['main.asm'], 'memory_map': {str(k): v for k, v in sorted(ref.mem.items())},
                        'windows': f'start 0..{top + 2} x end absent|start-1..{top + 2} x fills {fills}'})


def corpus_windows(acc, idx, n, q):
    """The repository's example programs under their own definitions: every window from a boundary set is the slice of the whole
    memory map (taken from two whole images with different fill values) padded with the fill value."""
    from mc import corpus
    progs = corpus.programs()
    ctr = 0
    for pi, prog in enumerate(progs):
        if q and pi % 3:
            continue            # quick: every third example program (all definitions are still represented)
        whole = [acc.run(corpus.case_for(prog, fill=0)), acc.run(corpus.case_for(prog, fill=0xFF))] if pi % n == idx else None
        if whole is None:
            continue
        acc.transition(2)
        if any(o.status != 'OK' or o.image is None for o in whole) or len(whole[0].image) != len(whole[1].image):
            acc.dc(f'example program {prog[0]} is not assembled by this tree')
            continue
        mem = {i: x for i, (x, y) in enumerate(zip(whole[0].image, whole[1].image)) if x == y}
        if not mem:
            continue
        lo, hi = min(mem), max(mem)
        mid = sorted(mem)[len(mem) // 2]
        starts = sorted({0, lo, lo + 1, mid, hi, hi + 1})
        for start in starts:
            for end in [None] + sorted({start - 1, start, lo + 2, mid + 1, hi - 1, hi, hi + 1, hi + 17} - set(range(0, start - 1))):
                if end is not None and (end < start - 1 or end < 0):
                    continue            # -e -1 means "absent" on the command line
                ctr += 1
                fill = (0xEE, 0x00, 0x5A)[ctr % 3]
                case = corpus.case_for(prog, start=start, end=end, fill=fill, verbose=ctr % 3, preseed=ctr % 2 == 0)
                out = acc.run(case)
                acc.transition()
                last = end if end is not None else hi
                want = bytes(mem.get(a, fill) for a in range(start, last + 1))
                spec = {'expect': 'OK', 'image_hex': want.hex(), 'program': prog[0], 'window': [start, end], 'fill': fill}
                msg = judge_expect(spec, [out])
                if msg:
                    if len(msg) > 400:
                        msg = msg[:400] + '...'
                    acc.violation([case], spec, f'example program {prog[0]} window start={start} end={end} fill={fill}: {msg}', [out])
                acc.judge(clause='default-end' if end is None else ('empty-window' if end < start else 'window'),
                          nontrivial_key=('corpus', prog[0], start, end))
        acc.state(('corpus', prog[0]))


def judge(spec, outcomes):
    return judge_expect(spec, outcomes)
