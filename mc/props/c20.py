"""C20 - generated editor extensions are well-formed and mirror the ISA vocabulary.

Product enumeration of vocabularies (mnemonics, macros, registers, predefined names from pools
built to collide; empty categories included) x both editor targets; the real generators are run
and every generated file is parsed, scanned for placeholders, and the category patterns of the
grammar are applied to the configured words and to near-miss identifiers.
"""
import itertools
import json
import os
import plistlib
import re
import shutil
import subprocess
import sys
import tempfile
import zipfile
import xml.dom.minidom

from mc import tmlite, world

ID = 'C20'
LEVEL = 'exploration'

MNEMONICS = ['ld', 'ldx', 'l', 'mov', 'mov.b', 'add', 'a2', 'x_1m', 'Jmp', '_brk', 'ld_', '2dup']
MACROS = ['mac', 'ldm', 'm.x', 'PUSH2', 'mac_', '2swp']
REGISTERS = ['a', 'x_1', 'sp', 'r1', '_t', 'b0', 'AH']      # b0 / AH also read as a binary / hexadecimal literal
PREDEFINED = ['KC', 'K_2', 'zn']
COMPILER_DIRECTIVES = ['org', 'memzone', 'align']
DATA_DIRECTIVES = ['fill', 'zero', 'zerountil', 'byte', '2byte', '4byte', '8byte', 'cstr', 'asciiz']
PREPROCESSOR = ['include', 'require', 'create_memzone', 'define', 'if', 'elif', 'else', 'endif', 'ifdef', 'ifndef', 'mute', 'unmute', 'emit']
FUNCTIONS = ['LSB', 'BYTE0', 'BYTE9']


def subsets(pool, maxsize, minsize=0):
    out = []
    for r in range(minsize, maxsize + 1):
        out += list(itertools.combinations(pool, r))
    return out


def make_isa(mn, mac, regs, pre):
    isa = {
        'description': 'vocabulary test',
        'general': {'address_size': 16, 'endian': 'little', 'registers': list(regs), 'min_version': '0.3.0',
                    'identifier': {'name': 'vocab-lang', 'version': '1.2.3', 'extension': 'vasm'}},
        'operand_sets': {'imm': {'operand_values': {'i': {'type': 'numeric', 'argument': {'size': 8, 'byte_align': True}}}}},
        'instructions': {m: {'bytecode': {'value': i, 'size': 8}} for i, m in enumerate(mn)},
    }
    if mac:
        isa['macros'] = {m: [{'instructions': [mn[0]]}] for m in mac}
    if pre:
        p = {}
        for name in pre:
            if name == 'zn':
                p['memory_zones'] = [{'name': 'zn', 'start': 0x10, 'end': 0x1F}]
            elif name == 'KC':
                p['constants'] = [{'name': 'KC', 'value': 3}]
            else:
                p['data'] = [{'name': name, 'address': 0x40, 'value': 0, 'size': 1}]
        isa['predefined'] = p
    return isa


def meta(tier):
    q = tier == 'quick'
    return {
        'rule': 'every instruction-set definition shipped with the repository that loads (examples/ and test/config_files/, renamed to one language name) x 2 targets with every check; then: vocabularies: two categories varied at a time (mnemonics x macros with two register/predefined settings, registers x predefined '
                'with two mnemonic/macro settings, single mnemonics x macro pairs; subset sizes one larger in the thorough tier) with every check; '
                'thorough: in addition every choice of 1..2 mnemonics, <=1 macro, <=2 registers, <=1 predefined name (~46 000 vocabularies; a generation costs ~40 ms), judged on well-formedness, '
                'placeholders and the category patterns; '
                'from pools built to collide (ld/ldx/l, mov/mov.b, names containing digits and underscores) x {vscode, sublime}; '
                'checks per generation: every file parses in its format (JSON, YAML, property list / XML, zip integrity), no '
                '##PLACEHOLDER## survives in any file, each configured word is matched in full by the pattern of its own category '
                '(case-insensitively for mnemonics, macros and registers), no near-miss identifier (word+x, x+word, word+_, word with '
                '"." replaced by a letter, a word of another category) is matched by a category it does not belong to, and every '
                'directive / preprocessor / function keyword is matched by its pattern; the generators run at logging verbosity 0..3 in rotation; for every third vocabulary the previous vocabulary is generated into the '
                'same directory first (an upgrade of the definition) and the packages found afterwards must be those of the later one; non-trivial = vocabulary with >=2 words in one '
                'category or a word containing "." or "_"; distinct by construction',
        'bounds': {'mnemonics': MNEMONICS, 'macros': MACROS, 'registers': REGISTERS, 'predefined': PREDEFINED},
        'assumptions': ['Python re and the Oniguruma-family engines of the editors agree on (?i), \\b, look-behind, look-ahead and alternation',
                        'preprocessor keywords: only a match starting right after the # is required (the template pattern has no trailing '
                        'boundary, so #ifdef may be matched as if+def depending on alternation order; not judged)'],
        'floors': {'evaluations': 500, 'nontrivial': 100, 'clauses': ['vscode', 'sublime', 'vscode-regenerated', 'sublime-regenerated']},
        'nshards': 64, 'xcheck': 0,
    }


# ---- inspection of one generated package ----------------------------------------------------------------------------

PLACEHOLDER = re.compile(r'##[A-Z_]+##')


def full_match(pattern, word):
    try:
        for m in re.finditer(pattern, word):
            if m.start() == 0 and m.end() == len(word):
                return True
    except re.error as e:
        raise ValueError(f'pattern {pattern!r} does not compile: {e}')
    return False


def any_match(pattern, word):
    return re.search(pattern, word) is not None


def near_misses(words, others):
    out = set()
    for w in words:
        out |= {w + 'x', 'x' + w, w + '_', 'q' + w + 'q', w + '9'}
        if '.' in w:
            out.add(w.replace('.', 'x'))
            out.add(w.replace('.', '_'))
    out |= set(others)
    return {n for n in out if n.lower() not in {w.lower() for w in words} and re.fullmatch(r'[\w]+', n)}


def check_category(name, pattern, words, others, ci=True):
    """-> list of problems"""
    probs = []
    if pattern is None:
        return [f'no pattern for category {name}'] if words else []
    for w in words:
        forms = [w, w.upper(), w.lower()] if ci else [w]
        for f in forms:
            if not full_match(pattern, f):
                probs.append(f'{name} pattern {pattern!r} does not classify configured word {f!r}')
    if not words:
        return probs        # an empty category that keeps its rule: what a pattern over no words matches is not judged
    for n in near_misses(words, others):
        if any_match(pattern, n):
            probs.append(f'{name} pattern {pattern!r} classifies {n!r}, which is not a configured {name}')
    return probs


LITERALS = ['$1F', 'b101', '17', '0AH', '%11']


def context_checks(tokenize, vocab, target):
    """Whole statement lines through the grammar as the editor applies it (rule stack, rule order): the mnemonic must come out
    as an instruction / macro, every configured register in operand position as a register, numeric literals as numbers."""
    mn, mac, regs, pre = vocab
    probs = []
    heads = [(m, 'variable.function.instruction') for m in mn[:2]] + [(m, 'variable.function.macro') for m in mac[:1]]
    for head, hscope in heads:
        for hf in (head, head.upper()):
            lines = []
            for r in regs:
                for rf in (r, r.upper(), r.lower()):
                    lines.append((f'{hf} {rf}, {rf}', [(len(hf) + 1, rf), (len(hf) + 3 + len(rf), rf)], 'variable.language.register'))
                    lines.append((f'    {hf} [{rf}]', [(len(hf) + 6, rf)], 'variable.language.register'))
            for lit in LITERALS:
                if lit.lower() not in {r.lower() for r in regs}:
                    lines.append((f'{hf} {lit}', [(len(hf) + 1, lit)], 'constant.numeric'))
            if not lines:
                lines.append((f'{hf}', [], None))
            for line, spans, want in lines:
                try:
                    toks = tokenize(line)
                except tmlite.GrammarError as e:
                    probs.append(f'{target} grammar cannot be applied to {line!r}: {e}')
                    continue
                h0 = len(line) - len(line.lstrip())
                got = tmlite.scope_of(toks, h0, h0 + len(hf))
                if got is None or got[2] != hscope or (got[0], got[1]) != (h0, h0 + len(hf)):
                    probs.append(f'{target} grammar applied to {line!r}: {hf!r} is classified as {got and got[2]!r}, not as {hscope}')
                for start, word in spans:
                    assert line[start:start + len(word)] == word, (line, start, word)
                    got = tmlite.scope_of(toks, start, start + len(word))
                    ok = got is not None and got[2].startswith(want) and (got[0], got[1]) == (start, start + len(word))
                    if not ok:
                        probs.append(f'{target} grammar applied to {line!r}: operand {word!r} is classified as {got and got[2]!r}, not as {want}')
    # several operations on one line (the assembler splits a line at every mnemonic): every head keeps its category
    for (h1, s1), (h2, s2) in itertools.product(heads, repeat=2):
        mids = [' '] + ([f' {regs[0]} ', f' {regs[0]}, 5 '] if regs else [' 5 '])
        for mid in mids:
            line = f'{h1}{mid}{h2}'
            try:
                toks = tokenize(line)
            except tmlite.GrammarError as e:
                probs.append(f'{target} grammar cannot be applied to {line!r}: {e}')
                continue
            for start, word, want in ((0, h1, s1), (len(h1) + len(mid), h2, s2)):
                got = tmlite.scope_of(toks, start, start + len(word))
                if got is None or got[2] != want or (got[0], got[1]) != (start, start + len(word)):
                    probs.append(f'{target} grammar applied to {line!r}: {word!r} at column {start} is classified as {got and got[2]!r}, not as {want}')
    return probs


def inspect_vscode(root, vocab, context=True):
    mn, mac, regs, pre = vocab
    probs = []
    extdir = os.path.join(root, 'extensions', 'vocab-lang')
    files = []
    for d, _, fs in os.walk(root):
        files += [os.path.join(d, f) for f in fs]
    if not files:
        return ['no files generated']
    for p in files:
        text = open(p, encoding='utf-8').read()
        m = PLACEHOLDER.search(text)
        if m:
            probs.append(f'{os.path.relpath(p, root)} still contains the placeholder {m.group(0)}')
        try:
            if p.endswith('.json'):
                json.loads(text)
            elif p.endswith('.tmTheme'):
                plistlib.loads(text.encode())
        except Exception as e:
            probs.append(f'{os.path.relpath(p, root)} is not well-formed: {type(e).__name__}: {e}')
    try:
        g = json.load(open(os.path.join(extdir, 'syntaxes', 'tmGrammar.json')))
        pk = json.load(open(os.path.join(extdir, 'package.json')))
    except Exception as e:
        return probs + [f'grammar/package unreadable: {e}']
    rep = g['repository']
    included = {p.get('include') for p in rep['main']['patterns']}
    for key in ('macros', 'registers', 'compiler_labels'):
        if ('#' + key in included) != (key in rep) and key == 'macros':
            probs.append(f'main includes #{key}: {"#" + key in included}, repository has it: {key in rep}')
    for grammar in pk['contributes']['grammars']:
        if not os.path.exists(os.path.join(extdir, grammar['path'])):
            probs.append(f'package.json names a missing grammar file {grammar["path"]}')
    for theme in pk['contributes']['themes']:
        if not os.path.exists(os.path.join(extdir, theme['path'])):
            probs.append(f'package.json names a missing theme file {theme["path"]}')
    probs += check_category('instruction', rep['instructions']['begin'], mn, list(mac) + list(regs) + list(pre))
    probs += check_category('macro', rep['macros']['begin'] if 'macros' in rep else None, mac, list(mn) + list(regs) + list(pre))
    probs += check_category('register', rep['registers']['match'] if 'registers' in rep else None, regs, list(mn) + list(mac) + list(pre))
    probs += check_category('predefined name', rep['compiler_labels']['match'] if 'compiler_labels' in rep else None, pre,
                            list(mn) + list(mac) + list(regs), ci=False)
    for item in rep['directives']['patterns']:
        if item.get('name') == 'meta.directive':
            probs += check_category('directive', item['begin'], ['.' + d for d in COMPILER_DIRECTIVES], [], ci=False)
        elif item.get('name') == 'storage.type':
            probs += check_category('data directive', item['match'], ['.' + d for d in DATA_DIRECTIVES], [], ci=False)
        elif item.get('name') == 'meta.preprocessor':
            for pat in item['patterns']:
                if pat.get('name') == 'keyword.control.preprocessor':
                    for kw in PREPROCESSOR:
                        m = re.search(pat['match'], '#' + kw)
                        if m is None or m.start() != 1:
                            probs.append(f'preprocessor pattern {pat["match"]!r} does not classify #{kw}')
    for item in rep['operators']['patterns']:
        if item.get('name') == 'keyword.operator.word':
            probs += check_category('expression function', item['match'], FUNCTIONS, [], ci=False)
    if context:
        probs += context_checks(lambda line: tmlite.tokenize_textmate(g, line), vocab, 'vscode')
    return probs


def inspect_sublime(root, vocab, context=True):
    import yaml
    mn, mac, regs, pre = vocab
    probs = []
    pkg = os.path.join(root, 'vocab-lang.sublime-package')
    if not os.path.exists(pkg):
        return ['no .sublime-package generated']
    try:
        z = zipfile.ZipFile(pkg)
        bad = z.testzip()
        if bad:
            probs.append(f'zip member {bad} is corrupt')
    except Exception as e:
        return [f'package is not a zip file: {e}']
    syntax = None
    for name in z.namelist():
        data = z.read(name)
        text = data.decode('utf-8')
        m = PLACEHOLDER.search(text)
        if m:
            probs.append(f'{name} still contains the placeholder {m.group(0)}')
        try:
            if name.endswith('.sublime-syntax'):
                body = text.split('---', 1)[1] if text.startswith('%YAML') else text
                syntax = yaml.safe_load(body)
            elif name.endswith(('.sublime-color-scheme', '.sublime-keymap', '.sublime-macro')):
                json.loads(re.sub(r'^\s*//.*$', '', text, flags=re.M))
            elif name.endswith('.tmPreferences'):
                plistlib.loads(data)
            elif name.endswith('.sublime-snippet'):
                xml.dom.minidom.parseString(data)
        except Exception as e:
            probs.append(f'{name} is not well-formed: {type(e).__name__}: {e}')
    if syntax is None:
        return probs + ['no .sublime-syntax in the package']
    ctx = syntax['contexts']
    ipat = mpat = None
    for rule in ctx['instructions']:
        if rule.get('scope') == 'variable.function.instruction':
            ipat = rule['match']
        elif rule.get('scope') == 'variable.function.macro':
            mpat = rule['match']
    probs += check_category('instruction', ipat, mn, list(mac) + list(regs) + list(pre))
    probs += check_category('macro', mpat, mac, list(mn) + list(regs) + list(pre))
    probs += check_category('register', ctx['registers'][0]['match'] if 'registers' in ctx else None, regs, list(mn) + list(mac) + list(pre))
    probs += check_category('predefined name', ctx['compiler_labels'][0]['match'] if 'compiler_labels' in ctx else None, pre,
                            list(mn) + list(mac) + list(regs), ci=False)
    probs += check_category('directive', ctx['compiler_directives'][0]['match'], ['.' + d for d in COMPILER_DIRECTIVES], [], ci=False)
    probs += check_category('data directive', ctx['data_types_directives'][0]['match'], ['.' + d for d in DATA_DIRECTIVES], [], ci=False)
    if context:
        probs += context_checks(lambda line: tmlite.tokenize_sublime(syntax, line), vocab, 'sublime')
    if syntax.get('file_extensions') != ['vasm']:
        probs.append(f'file_extensions is {syntax.get("file_extensions")!r}, the ISA declares vasm')
    return probs


# ---- generation ------------------------------------------------------------------------------------------------------

def _write_isa(isa, root, aged=False):
    """isa: a definition as a dict (written as JSON) or as YAML text (written verbatim); aged: written under another name with a
    modification time one hour in the past (a definition file that is older than anything generated so far)"""
    if aged:
        import time
        cfg = os.path.join(root, 'isa_rev_b.yaml' if isinstance(isa, str) else 'isa_rev_b.json')
        with open(cfg, 'w') as f:
            f.write(isa) if isinstance(isa, str) else json.dump(isa, f)
        old = time.time() - 3600
        os.utime(cfg, (old, old))
        return cfg
    if isinstance(isa, str):
        cfg = os.path.join(root, 'isa.yaml')
        with open(cfg, 'w') as f:
            f.write(isa)
    else:
        cfg = os.path.join(root, 'isa.json')
        with open(cfg, 'w') as f:
            json.dump(isa, f)
    return cfg


def real_definitions():
    """The instruction-set definitions shipped with the repository (examples/ and test/config_files/) that the tree under test loads,
    renamed to the language name the inspectors expect -> [(file name, YAML text, vocabulary)]"""
    import glob
    import yaml
    out = []
    for path in sorted(glob.glob(os.path.join(world.REPO, 'examples', '*', '*.yaml')) + glob.glob(os.path.join(world.REPO, 'examples', '*.yaml')) +
                       glob.glob(os.path.join(world.REPO, 'test', 'config_files', '*.yaml'))):
        try:
            with open(path) as f:
                d = yaml.safe_load(f)
        except Exception:
            continue
        if not isinstance(d, dict) or not isinstance(d.get('instructions'), dict) or not isinstance(d.get('general'), dict):
            continue
        d['general']['identifier'] = {'name': 'vocab-lang', 'version': '1.2.3', 'extension': 'vasm'}
        pre = []
        for k in ('constants', 'data', 'memory_zones'):
            for e in ((d.get('predefined') or {}).get(k) or []):
                if isinstance(e, dict) and 'name' in e:
                    pre.append(str(e['name']))
        vocab = (tuple(str(m) for m in d['instructions']), tuple(str(m) for m in (d.get('macros') or {})),
                 tuple(str(r) for r in (d['general'].get('registers') or ())), tuple(pre))
        out.append((os.path.relpath(path, world.REPO), yaml.safe_dump(d), vocab))
    return out


def real_isas(acc, idx, n):
    """Every shipped definition that loads: both targets, all checks (a definition the tree refuses to load is a don't-care)."""
    for i, (name, text, vocab) in enumerate(real_definitions()):
        if i % n != idx:
            continue
        for target in ('vscode', 'sublime'):
            probs = examine(text, target, vocab, generate_inproc, context=True)
            if probs and probs[0].startswith(('generator exited', 'generator failed')):
                acc.count_eval(1, 'OK')
                acc.dc(f'{name} is not loaded by this tree')
                continue
            acc.count_eval(1, 'OK' if not probs else 'PROBLEM')
            if probs:
                spec = {'target': target, 'definition': name, 'vocab': [list(v) for v in vocab]}
                acc.violation([{'isa': text, 'target': target}], spec, f'{target} for {name}: {probs[0]}', [{'problems': probs[:5]}])
            acc.judge(clause=target, nontrivial_distinct=True)


def generate_inproc(isa, target, root, verbose=0, aged=False):
    world._load()
    from bespokeasm.configgen.vscode import VSCodeConfigGenerator
    from bespokeasm.configgen.sublime import SublimeConfigGenerator
    cfg = _write_isa(isa, root, aged)
    out = os.path.join(root, 'out')
    os.makedirs(out, exist_ok=True)
    world.reset_globals()
    cls = VSCodeConfigGenerator if target == 'vscode' else SublimeConfigGenerator
    import contextlib
    import io
    with contextlib.redirect_stdout(io.StringIO()):
        cls(cfg, verbose, out, None, None, None).generate()
    return out


def generate_cli(isa, target, root, verbose=0, aged=False):
    cfg = _write_isa(isa, root, aged)
    out = os.path.join(root, 'out')
    os.makedirs(out, exist_ok=True)
    env = {k: v for k, v in os.environ.items() if not k.startswith('BESPOKEASM_')}
    env['PYTHONPATH'] = world.SRC
    p = subprocess.run([world.PYTHON, '-m', 'bespokeasm', 'generate-extension', target, '-c', cfg, '-d', out] + ['-v'] * verbose,
                       capture_output=True, text=True, env=env, timeout=120)
    if p.returncode != 0:
        raise RuntimeError(f'generate-extension exited with {p.returncode}: {(p.stderr.strip().splitlines() or [""])[-1]}')
    return out


def examine(isa, target, vocab, gen, before=None, context=True, verbose=0):
    """before: an earlier revision of the definition (same language name) generated into the same directory first; the packages
    found there afterwards must be those of `isa`."""
    root = tempfile.mkdtemp(prefix='bespokeverif_c20_', dir='/dev/shm' if os.path.isdir('/dev/shm') else None)
    try:
        try:
            if before is not None:
                gen(before, target, root)
                # the second definition comes from another file that is older than the first generation's output
                out = gen(isa, target, root, verbose, aged=True)
            else:
                out = gen(isa, target, root, verbose)
        except SystemExit as e:
            return [f'generator exited: {e.code}']
        except Exception as e:
            return [f'generator failed: {type(e).__name__}: {e}']
        try:
            return (inspect_vscode if target == 'vscode' else inspect_sublime)(out, vocab, context)
        except ValueError as e:
            return [str(e)]
    finally:
        shutil.rmtree(root, ignore_errors=True)


def shard(acc, tier, idx, n):
    q = tier == 'quick'
    ctr = 0
    real_isas(acc, idx, n)
    # the generators fill each category pattern independently, so two categories are varied at a time; these vocabularies get every check,
    # including whole statement lines through the grammar interpreter and regeneration over an earlier revision
    k = 0 if q else 1
    vocabs = [(mn, mac, regs, pre) for mn in subsets(MNEMONICS, 2 + k, 1) for mac in subsets(MACROS, 1)
              for regs in ((), ('a', 'x_1')) for pre in ((), ('KC',))]
    vocabs += [(mn, mac, regs, pre) for regs in subsets(REGISTERS, 2 + k) for pre in subsets(PREDEFINED, 1 + k)
               for mn in (('ld',), ('ld', 'mov.b')) for mac in ((), ('mac',))]
    vocabs += [(mn, mac, (), ()) for mn in subsets(MNEMONICS, 1, 1) for mac in subsets(MACROS, 2)]
    # a definition without any instruction (a data-only assembler): the instruction patterns are still filled in
    vocabs += [((), (), regs, pre) for regs in ((), ('a',), ('a', 'x_1')) for pre in ((), ('KC',))]
    full = []
    if not q:
        # thorough: the full product as well, judged on well-formedness, placeholders and the category patterns
        # (their in-context interpretation is out of budget)
        full = [(mn, mac, regs, pre) for mn in subsets(MNEMONICS, 2, 1) for mac in subsets(MACROS, 1)
                for regs in subsets(REGISTERS, 2) for pre in subsets(PREDEFINED, 1)]
    seen_v = set()
    if True:
        if True:
            if True:
                ctxset = set(vocabs)
                for vocab in vocabs + full:
                    if vocab in seen_v:
                        continue
                    seen_v.add(vocab)
                    in_context = vocab in ctxset
                    mn, mac, regs, pre = vocab
                    ctr += 1
                    if ctr % n != idx:
                        continue
                    isa = make_isa(*vocab)
                    for target in ('vscode', 'sublime'):
                        verbose = ctr % 4 if in_context else 0          # the logging verbosity (-v .. -vvv) never changes what is generated
                        probs = examine(isa, target, vocab, generate_inproc, context=in_context, verbose=verbose)
                        acc.count_eval(1, 'OK' if not probs else 'PROBLEM')
                        if probs:
                            spec = {'target': target, 'vocab': [list(v) for v in vocab], 'verbose': verbose}
                            finding = None
                            acc.violation([{'isa': isa, 'target': target}], spec, f'{target} {vocab}: {probs[0]}', [{'problems': probs[:5]}],
                                          finding=finding)
                        elif in_context and ctr % 3 == 0:
                            # an upgrade: the previous vocabulary was generated into the same directory before this one
                            prev = vocabs[(ctr - 2) % len(vocabs)]
                            probs = examine(isa, target, vocab, generate_inproc, before=make_isa(*prev))
                            acc.count_eval(1, 'OK' if not probs else 'PROBLEM')
                            if probs:
                                spec = {'target': target, 'vocab': [list(v) for v in vocab], 'before': make_isa(*prev)}
                                acc.violation([{'isa': isa, 'target': target}], spec,
                                              f'{target} {vocab} generated over {prev} in the same directory: {probs[0]}', [{'problems': probs[:5]}])
                            acc.judge(clause=target + '-regenerated', nontrivial_distinct=True)
                        nt = max(len(mn), len(mac), len(regs), len(pre)) >= 2 or any('.' in w or '_' in w for v in vocab for w in v)
                        acc.judge(clause=target, nontrivial_distinct=nt)
                    if ctr % 101 == 0:
                        acc.sample({'mnemonics': mn, 'macros': mac, 'registers': regs, 'predefined': pre})


def judge(spec, outcomes):
    probs = outcomes[0]
    return probs[0] if probs else None


def confirm(viol):
    spec = viol['spec']
    c = viol['cases'][0]
    vocab = tuple(tuple(v) for v in spec['vocab'])
    probs = examine(c['isa'], spec['target'], vocab, generate_cli, before=spec.get('before'), verbose=spec.get('verbose', 0))
    return (probs[0] if probs else None), [{'problems': probs[:5]}]
