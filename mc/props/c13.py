"""C13 - variant and operand selection follows the documented priority only.

Deliberately ambiguous generated definitions: a mnemonic with 2-3 variants; each variant a pattern
over 1-2 slots whose operand sets are small subsets of 12 alternative kinds, optionally with an
explicitly listed combination and a disallowed pair.  Every variant has its own opcode and every
alternative its own code, so the image names the choice.  The reference matcher works on the
*category* of each operand text, which the generator knows by construction.
"""
import itertools

from mc import refenc
from mc.judges import judge_expect
from mc.world import Case

ID = 'C13'
LEVEL = 'exploration'

REGS = ['a', 'b', 'sp']
LABELS = {'lbl': 9, 'foo': 7, 'FOO': 11, 'zed': 5}

# ---- operand texts and their categories -----------------------------------------------------------
# category: (form, register or None, value or None)
TEXTS = {
    'a': ('reg', 'a', None), 'A': ('reg', 'a', None), 'b': ('reg', 'b', None), 'sp': ('reg', 'sp', None),
    '5': ('num', None, 5), 'lbl': ('num', None, 9),
    'FOO': ('num', None, 11),       # a constant whose name is an enumeration key in another letter case: not the key (written before it)
    'foo': ('key', None, 7),
    'zed': ('keyz', None, 5),       # an enumeration key whose argument value is 0 (and a constant of value 5) '3': ('num', None, 3),
    '[5]': ('ind_num', None, 5), '[lbl]': ('ind_num', None, 9), '[[5]]': ('def_num', None, 5),
    '[a]': ('ind_reg', 'a', 0), '[a+1]': ('ind_reg', 'a', 1), '[b]': ('ind_reg', 'b', 0),
    'a+1': ('idx_reg', 'a', 1), '{5}': ('curly', None, 5),
    'foo+1': ('num', None, 8), 'foo_x': ('num', None, 3),      # expressions / identifiers that merely begin with an enumeration key
    # a register name under a unary operator or function is still a register name inside an expression: nothing accepts these
    '-a': ('predec', 'a', None), '-b': ('predec', 'b', None), '++a': ('preinc', 'a', None), 'a++': ('postinc', 'a', None), '-[a]': ('predec_ind', 'a', None), '[a]+': ('postinc_ind', 'a', None), 'LSB(b)': ('regexpr', 'b', None), 'BYTE0(A)': ('regexpr', 'a', None), '5+-sp': ('regexpr', 'sp', None),
}
TEXTS_Q2 = ['a', 'b', 'sp', '5', 'foo', '[5]', '[a]', 'a+1']

# ---- alternatives: name -> (type priority class, config builder, accept(category) -> None | (code, arg)) --------
# priority classes per the statement: 0 bracketed / register-indexed, 1 enumeration keys and plain registers, 2 numeric
ALTS = {}


def alt(name, prio, cfg, accept):
    ALTS[name] = (prio, cfg, accept)


def _arg8():
    return {'size': 8, 'byte_align': True}


alt('reg_a', 1, lambda c: {'type': 'register', 'register': 'a', 'bytecode': {'value': c, 'size': 4}},
    lambda cat: (True, None) if cat[0] == 'reg' and cat[1] == 'a' else None)
alt('reg_b', 1, lambda c: {'type': 'register', 'register': 'b', 'bytecode': {'value': c, 'size': 4}},
    lambda cat: (True, None) if cat[0] == 'reg' and cat[1] == 'b' else None)
alt('predec_a', 1, lambda c: {'type': 'register', 'register': 'a', 'bytecode': {'value': c, 'size': 4}, 'decorator': {'type': 'minus', 'is_prefix': True}},
    lambda cat: (True, None) if cat[0] == 'predec' and cat[1] == 'a' else None)        # written -a: a decorated register, not the negation of one
# the same register with the same decorator before and after it: two different operands
alt('preinc_a', 1, lambda c: {'type': 'register', 'register': 'a', 'bytecode': {'value': c, 'size': 4}, 'decorator': {'type': 'plus_plus', 'is_prefix': True}},
    lambda cat: (True, None) if cat[0] == 'preinc' and cat[1] == 'a' else None)
alt('postinc_a', 1, lambda c: {'type': 'register', 'register': 'a', 'bytecode': {'value': c, 'size': 4}, 'decorator': {'type': 'plus_plus', 'is_prefix': False}},
    lambda cat: (True, None) if cat[0] == 'postinc' and cat[1] == 'a' else None)
# a decorated indirect register: the bracket is not the first character of the operand text
alt('predec_ind_a', 0, lambda c: {'type': 'indirect_register', 'register': 'a', 'bytecode': {'value': c, 'size': 4}, 'decorator': {'type': 'minus', 'is_prefix': True}},
    lambda cat: (True, None) if cat[0] == 'predec_ind' and cat[1] == 'a' else None)
alt('postinc_ind_a', 0, lambda c: {'type': 'indirect_register', 'register': 'a', 'bytecode': {'value': c, 'size': 4}, 'decorator': {'type': 'plus', 'is_prefix': False}},
    lambda cat: (True, None) if cat[0] == 'postinc_ind' and cat[1] == 'a' else None)
alt('numeric', 2, lambda c: {'type': 'numeric', 'bytecode': {'value': c, 'size': 4}, 'argument': _arg8()},
    lambda cat: (True, cat[2]) if cat[0] in ('num', 'key', 'keyz') else None)
alt('numeric_va', 2, lambda c: {'type': 'numeric', 'bytecode': {'value': c, 'size': 4},
                                 'argument': {'size': 8, 'byte_align': True, 'valid_address': True}},
    lambda cat: (True, cat[2]) if cat[0] in ('num', 'key', 'keyz') else None)
alt('ind_num_va', 0, lambda c: {'type': 'indirect_numeric', 'bytecode': {'value': c, 'size': 4},
                                 'argument': {'size': 8, 'byte_align': True, 'valid_address': True}},
    lambda cat: (True, cat[2]) if cat[0] == 'ind_num' else None)
alt('ind_num', 0, lambda c: {'type': 'indirect_numeric', 'bytecode': {'value': c, 'size': 4}, 'argument': _arg8()},
    lambda cat: (True, cat[2]) if cat[0] == 'ind_num' else None)
alt('def_num', 0, lambda c: {'type': 'deferred_numeric', 'bytecode': {'value': c, 'size': 4}, 'argument': _arg8()},
    lambda cat: (True, cat[2]) if cat[0] == 'def_num' else None)
alt('ind_reg_a', 0, lambda c: {'type': 'indirect_register', 'register': 'a', 'bytecode': {'value': c, 'size': 4},
                               'offset': {'size': 8, 'byte_align': True}},
    lambda cat: (True, cat[2]) if cat[0] == 'ind_reg' and cat[1] == 'a' else None)
alt('idx_reg_a', 0, lambda c: {'type': 'indexed_register', 'register': 'a', 'bytecode': {'value': c, 'size': 4},
                               'index_operands': {'i': {'type': 'numeric', 'argument': _arg8()}}},
    lambda cat: (True, cat[2]) if cat[0] == 'idx_reg' and cat[1] == 'a' else None)
alt('enum_foo', 1, lambda c: {'type': 'enumeration', 'bytecode': {'size': 4, 'value_dict': {'foo': c, 'zap': c, 'zed': c}},
                              'argument': {'size': 8, 'byte_align': True, 'value_dict': {'foo': 0x66, 'zap': 0x67, 'zed': 0}}},
    lambda cat: (True, 0x66) if cat[0] == 'key' else (True, 0) if cat[0] == 'keyz' else None)      # zed: a key whose value is 0
alt('address', 2, lambda c: {'type': 'address', 'bytecode': {'value': c, 'size': 4}, 'argument': _arg8()},
    lambda cat: (True, cat[2]) if cat[0] in ('num', 'key', 'keyz') else None)
alt('relative', 2, lambda c: {'type': 'relative_address', 'bytecode': {'value': c, 'size': 4}, 'use_curly_braces': True,
                              'argument': {'size': 8, 'byte_align': True}},
    lambda cat: (True, cat[2]) if cat[0] == 'curly' else None)     # offset = target - address; statements with {..} run at address 0
alt('numbc', 2, lambda c: {'type': 'numeric_bytecode', 'bytecode': {'size': 4, 'min': 0, 'max': 15}},
    lambda cat: ('VALUE', None) if cat[0] in ('num', 'key', 'keyz') else None)

alt('EMPTY', 0, lambda c: {'type': 'empty', 'bytecode': {'value': c, 'size': 4}}, lambda cat: None)      # consumes no operand text

NUMERIC_LIKE = {'numeric', 'numeric_va', 'address', 'numbc'}
BRACKET_NUMERIC = {'ind_num', 'ind_num_va'}
ALT_NAMES = [a for a in ALTS if a != 'EMPTY']


def subsets(maxsize):
    out = []
    for r in range(1, maxsize + 1):
        for combo in itertools.combinations(ALT_NAMES, r):
            if len(NUMERIC_LIKE & set(combo)) > 1 or len(BRACKET_NUMERIC & set(combo)) > 1:
                continue            # the statement does not order numeric-like alternatives among themselves
            out.append(combo)
    return out


# ---- reference matcher ----------------------------------------------------------------------------------

def match_set(alts, cat):
    """alts: list of (name, code) in definition order -> (name, code, arg) | None"""
    ordered = sorted(alts, key=lambda nc: ALTS[nc[0]][0])        # stable: priority class, then definition order
    for name, code in ordered:
        r = ALTS[name][2](cat)
        if r is not None:
            c = cat[2] if r[0] == 'VALUE' else code
            return name, c, r[1]
    return None


def match_variant(variant, cats):
    """variant: {'opcode', 'sets': [[(name,code)..]..], 'specific': [[(name,code)..]..] or None, 'disallowed': [names] or None}"""
    if variant.get('specific'):
        for combo in variant['specific']:
            written = [c for c in combo if c[0] != 'EMPTY']
            if len(written) != len(cats):
                continue
            got = []
            it = iter(cats)
            for (name, code) in combo:
                if name == 'EMPTY':
                    got.append((name, code, None))       # an empty operand contributes its code and consumes no text
                    continue
                cat = next(it)
                r = ALTS[name][2](cat)
                if r is None:
                    got = None
                    break
                got.append((name, cat[2] if r[0] == 'VALUE' else code, r[1]))
            if got is not None:
                return got
    sets = variant['sets']
    if not sets and variant.get('count'):
        return None         # a variant that only lists explicit combinations
    if len(sets) != len(cats):
        return None
    got = []
    for s, cat in zip(sets, cats):
        m = match_set(s, cat)
        if m is None:
            return None
        got.append(m)
    ids = [g[0] if variant.get('shared') else g[0] + str(i) for i, g in enumerate(got)]
    if variant.get('disallowed') and ids == variant['disallowed']:
        return None             # exactly the listed ordered combination, nothing else
    return got


def reference(variants, cats, addr):
    for v in variants:
        got = match_variant(v, cats)
        if got is not None:
            ops = []
            for name, code, arg in got:
                d = {'code': ((code, 4, False, 'big'), 'suffix')}
                if arg is not None:
                    d['arg'] = (arg, 8, True, 'big')
                ops.append(d)
            fields = refenc.order_fields((v['opcode'], 8, False, 'big'), None, ops)
            return fields, got
    return None, None


def build_instruction(mn, variants):
    opsets = {}
    vcfgs = []
    for vi, v in enumerate(variants):
        ops = {'count': v.get('count', len(v['sets']))}
        names = []
        for si, s in enumerate(v['sets']):
            if v.get('shared') and si > 0:
                names.append(names[0])          # the same operand set (same operand ids) in every slot
                continue
            sname = f'{mn}_v{vi}s{si}'
            suffix = '' if v.get('shared') else str(si)
            # 'idprefix': how the operand ids are spelled ('asc': alphabetical in definition order, 'desc': reverse) - names carry no meaning
            pre = {None: lambda k: '', 'asc': lambda k: chr(ord('a') + k) + '_', 'desc': lambda k: chr(ord('z') - k) + '_'}[v.get('idprefix')]
            opsets[sname] = {'operand_values': {f'{pre(k)}{name}{suffix}': ALTS[name][1](code) for k, (name, code) in enumerate(s)}}
            names.append(sname)
        if names:
            ops['operand_sets'] = {'list': names}
        if v.get('disallowed'):
            ops['operand_sets']['disallowed_pairs'] = [list(v['disallowed'])]
        if v.get('specific'):
            ops['specific_operands'] = {}
            for ci, combo in enumerate(v['specific']):
                pre = '' if v.get('specific_same_ids') else 'x'      # same ids: the listed operands are named like the set members
                ops['specific_operands'][f'c{ci}'] = {'list': {f'{pre}{name}{k}': ALTS[name][1](code) for k, (name, code) in enumerate(combo)}}
        if v.get('noops'):
            vcfgs.append({'bytecode': {'value': v['opcode'], 'size': 8}})          # a variant without an operands section
        else:
            vcfgs.append({'bytecode': {'value': v['opcode'], 'size': 8}, 'operands': ops})
    cfg = dict(vcfgs[0])
    if len(vcfgs) > 1:
        cfg['variants'] = vcfgs[1:]
    return cfg, opsets


def meta(tier):
    q = tier == 'quick'
    return {
        'rule': 'one-slot: every ordered pair of variants whose single slot is any subset of size <=2 (thorough 3) of the 13 alternative '
                'kinds (at most one numeric-like kind per set) x all 18 operand texts x mnemonic case; two-slot: variants over a '
                'reduced subset list, with and without an explicitly listed combination and a disallowed pair (also both at once, for the same pair of operand ids), x pairs of 8 texts; excluded combinations of one and of three operands; '
                'three variants over a reduced list; numeric-enumeration sets: a numeric enumeration (by code / by argument) next to two registers in 3 definition orders x 6 texts (a register name is a register, not the expression of the enumeration); renaming differential: 11 operand sets (also ones with two alternatives of the same kind) x all texts, '
                'operand ids spelled in alphabetical and in reverse alphabetical order, same encoding required; expected = opcode of the first accepting variant + code of the chosen '
                'alternative (+ argument), or rejection; non-trivial = statement that more than one variant or more than one '
                'alternative of a set could accept syntactically; distinct by construction',
        'bounds': {'alternatives': ALT_NAMES, 'texts': list(TEXTS), 'subset_size': 2 if q else 3},
        'assumptions': [
            'sets with two numeric-like alternatives (numeric / address / numeric_bytecode) are not generated: the statement does not order them',
            'indirect-register alternatives are always configured with an offset (an unexpected offset is a hard error in the pinned tree, '
            'not a fall-through; the statement is silent)',
            'reference matcher: this file, over text categories known by construction',
        ],
        'floors': {'evaluations': 1000, 'nontrivial': 100, 'statuses': ['OK', 'REJECT'],
                   'clauses': ['first-variant', 'later-variant', 'no-variant-rejected', 'register-not-numeric', 'specific-before-sets',
                               'disallowed-skipped', 'names-carry-no-meaning']},
        'nshards': 64, 'xcheck': 16,
    }


def ambiguous(variants, cats):
    n = 0
    for v in variants:
        if match_variant(dict(v, disallowed=None), cats) is not None:
            n += 1
    return n > 1


_GRP = [0]


def _declare_upper(node):
    if isinstance(node, dict):
        return {k: ([r.upper() for r in v] if k == 'registers' else v.upper() if k == 'register' and isinstance(v, str) else _declare_upper(v))
                for k, v in node.items()}
    if isinstance(node, list):
        return [_declare_upper(x) for x in node]
    return node


def run_group(acc, group, texts_list, upper=False):
    """group: list of (mnemonic, variants); all statements of the group share one ISA definition."""
    instructions, opsets = {}, {}
    for mn, variants in group:
        cfg, sets = build_instruction(mn, variants)
        instructions[mn] = cfg
        opsets.update(sets)
    isa = {'general': {'address_size': 16, 'endian': 'big', 'registers': REGS, 'min_version': '0.3.0'},
           'operand_sets': opsets, 'instructions': instructions}
    # every third group declares its registers in upper case (A, B, SP): register names match without regard to letter case,
    # whichever way the definition spells them
    _GRP[0] += 1
    if _GRP[0] % 3 == 2:
        isa = _declare_upper(isa)
    header = [f'{k} = {v}' for k, v in LABELS.items()] + ['foo_x = 3']
    ok_lines, ok_bytes, pending = [], bytearray(), []
    addr = 0
    singles = []
    for mn, variants in group:
        for texts in texts_list:
            cats = [TEXTS[t] if t else ('nothing', None, None) for t in texts]        # '': an empty operand slot (stray comma), accepted by nothing
            mtext = mn.upper() if upper and (hash((mn, texts)) % 3 == 0) else mn
            stmt = f'{mtext} ' + ', '.join(texts)
            fields, got = reference(variants, cats, 0)
            clause = classify(variants, cats, got)
            nt = ambiguous(variants, cats)
            if fields is None:
                # rejected statements cannot be batched.  Near misses (every operand text is acceptable to some alternative of the
                # instruction, but no variant accepts the combination) are all kept; statements with an operand that nothing in
                # the instruction accepts are kept for the first instruction of each group only.
                near = all(any(ALTS[nm][2](c) is not None for v in variants for s_ in (v['sets'] + (v.get('specific') or []))
                               for nm, _ in s_) for c in cats)
                if near or mn == group[0][0]:
                    singles.append((stmt, None, clause, nt, mn, variants))
            elif any(g[0] == 'relative' for g in got):
                singles.append((stmt, (fields, got), clause, nt, mn, variants))     # address dependent: assembled alone at address 0
            else:
                data = refenc.encode(fields)
                ok_lines.append('    ' + stmt)
                ok_bytes += data
                pending.append((stmt, data, clause, nt))
    # accepted statements: one batch; rejected / address-relative ones: one assembly each
    if ok_lines:
        case = Case(isa, '\n'.join(header + ok_lines) + '\n')
        out = acc.run(case)
        if not (out.status == 'OK' and out.image == bytes(ok_bytes)):
            before = acc.nviol
            for stmt, data, clause, nt in pending:
                single(acc, isa, header, stmt, data)
            if acc.nviol == before:
                # every statement is encoded as expected when assembled alone, but not in sequence: the encoding of a
                # statement depends on the statements before it, not only on the definition
                spec = {'expect': 'OK', 'image_hex': bytes(ok_bytes).hex(), 'statement': 'the whole sequence'}
                acc.violation([case], spec, 'statements encoded as expected one by one are encoded differently in sequence: '
                              + str(judge_expect(spec, [out])), [out])
        for stmt, data, clause, nt in pending:
            acc.judge(clause=clause, nontrivial_distinct=nt)
        acc.sample({'statement': pending[0][0], 'expected': pending[0][1].hex(), 'instruction': instructions[group[0][0]]})
    for stmt, exp, clause, nt, mn, variants in singles:
        if exp is None:
            single(acc, isa, header, stmt, None)
        else:
            fields, got = exp
            single(acc, isa, header, stmt, refenc.encode(fields))
        acc.judge(clause=clause, nontrivial_distinct=nt)


def single(acc, isa, header, stmt, data):
    case = Case(isa, '\n'.join(header + ['    ' + stmt]) + '\n')
    out = acc.run(case, xcheck=(data is None))
    spec = {'expect': 'REJECT', 'why': 'no variant accepts', 'statement': stmt} if data is None else \
        {'expect': 'OK', 'image_hex': bytes(data).hex(), 'statement': stmt}
    msg = judge_expect(spec, [out])
    if msg:
        acc.violation([case], spec, f'{stmt!r}: {msg}', [out])


def classify(variants, cats, got):
    if got is None:
        if any(c[0] == 'reg' for c in cats) and any(any(n in NUMERIC_LIKE for n, _ in s) for v in variants for s in v['sets']):
            return 'register-not-numeric'
        return 'no-variant-rejected'
    for vi, v in enumerate(variants):
        m = match_variant(v, cats)
        if m is not None:
            if v.get('specific') and match_variant({'sets': [], 'count': 1, 'specific': v['specific']}, cats) is not None:
                return 'specific-before-sets'
            return 'first-variant' if vi == 0 else 'later-variant'
        if v.get('disallowed') and match_variant(dict(v, disallowed=None), cats) is not None:
            return 'disallowed-skipped'
    return 'later-variant'


def codes(n, start=8):
    return [start + i for i in range(n)]


def shard(acc, tier, idx, n):
    q = tier == 'quick'
    c0 = renaming(acc, idx, n, 0)
    numeric_enumeration_sets(acc, idx, n, c0)
    ctr = 0
    subs = subsets(2 if q else 3)
    one_texts = [(t,) for t in TEXTS]
    # ---- one slot, two variants ----------------------------------------------------------------------------
    G = 12
    pairs = list(itertools.product(range(len(subs)), repeat=2))
    for g0 in range(0, len(pairs), G):
        ctr += 1
        if ctr % n != idx:
            continue
        group = []
        for k, (i, j) in enumerate(pairs[g0:g0 + G]):
            c1 = [(nm, 9 + x) for x, nm in enumerate(subs[i])]
            c2 = [(nm, 12 + x) for x, nm in enumerate(subs[j])]
            group.append((f't{k}', [{'opcode': 0xC1, 'sets': [c1]}, {'opcode': 0xC2, 'sets': [c2]}]))
        run_group(acc, group, one_texts, upper=True)
    # ---- an empty operand slot (a stray comma) is an operand nothing accepts: it is not dropped to make the statement fit a shorter form ----
    ctr += 1
    if ctr % n == idx:
        group = []
        for k, (s1, s2) in enumerate(itertools.product(['reg_a', 'numeric', 'enum_foo', 'ind_num'], repeat=2)):
            two = {'opcode': 0xC9, 'sets': [[(s1, 9)], [(s2, 10)]]}
            group.append((f'h{k}', [{'opcode': 0xCA, 'sets': [[(s1, 9)]]}, two]))            # a one-operand form next to the two-operand form
            group.append((f'i{k}', [two, {'opcode': 0xCB, 'sets': [[(s2, 11)]]}]))
        stray = [(x, '') for x in ('a', '5', 'foo', '[5]')] + [('', x) for x in ('a', '5', 'foo', '[5]')] + [('a', '', '5'), ('', '')]
        run_group(acc, group, stray)
    # ---- an excluded combination of one operand, and of three: a variant that excludes the text leaves it to the next variant ------
    singles2 = [s_ for s_ in subs if len(s_) <= 2]
    for g0 in range(0, len(singles2), G):
        ctr += 1
        if ctr % n != idx:
            continue
        group = []
        k = 0
        for sub in singles2[g0:g0 + G]:
            c1 = [(nm, 9 + x) for x, nm in enumerate(sub)]
            for banned in sub:
                v1 = {'opcode': 0xC5, 'sets': [c1], 'disallowed': [banned + '0']}
                group.append((f'd{k}', [v1]))
                group.append((f'e{k}', [v1, {'opcode': 0xC6, 'sets': [[(banned, 12)]]}]))
                k += 1
        run_group(acc, group, one_texts)
    three_sets = [[('reg_a', 9), ('reg_b', 10)], [('numeric', 11), ('reg_a', 12)], [('reg_b', 13), ('ind_num', 14)]]
    three_texts = list(itertools.product(('a', 'b', '5'), ('5', 'a', 'lbl'), ('b', '[5]', '5')))
    bans = list(itertools.product(('reg_a0', 'reg_b0'), ('numeric1', 'reg_a1'), ('reg_b2', 'ind_num2')))
    for g0 in range(0, len(bans), G):
        ctr += 1
        if ctr % n != idx:
            continue
        group = []
        for k, ban in enumerate(bans[g0:g0 + G]):
            v1 = {'opcode': 0xC7, 'sets': three_sets, 'disallowed': list(ban)}
            group.append((f'f{k}', [v1]))
            group.append((f'g{k}', [v1, {'opcode': 0xC8, 'sets': three_sets}]))
        run_group(acc, group, three_texts)
    # ---- two slots: sets / specific / disallowed ---------------------------------------------------------------
    red = [('reg_a',), ('reg_a', 'reg_b'), ('numeric',), ('reg_a', 'numeric'), ('enum_foo', 'numeric'), ('ind_num', 'ind_reg_a'),
           ('idx_reg_a', 'reg_a'), ('numbc', 'reg_b'), ('numeric_va',)]
    if q:
        red = [red[1], red[3], red[4], red[5], red[6], red[8]]
    else:
        red += [('address', 'enum_foo', 'reg_b'), ('def_num', 'ind_num', 'numeric')]
    two_texts = list(itertools.product(TEXTS_Q2, repeat=2))
    combos = list(itertools.product(range(len(red)), repeat=4))
    for g0 in range(0, len(combos), G):
        ctr += 1
        if ctr % n != idx:
            continue
        for mode in ('plain', 'disallowed', 'specific', 'listed+disallowed'):
            group = []
            for k, (i, j, i2, j2) in enumerate(combos[g0:g0 + G]):
                v1 = {'opcode': 0xD1, 'sets': [[(nm, 1 + x) for x, nm in enumerate(red[i])], [(nm, 5 + x) for x, nm in enumerate(red[j])]]}
                v2 = {'opcode': 0xD2, 'sets': [[(nm, 9 + x) for x, nm in enumerate(red[i2])], [(nm, 12 + x) for x, nm in enumerate(red[j2])]]}
                if mode == 'disallowed':
                    v1['disallowed'] = [red[i][0] + '0', red[j][0] + '1']
                elif mode == 'specific':
                    # an explicitly listed combination in the *second* variant and in the first: listed ones come before sets
                    v1['specific'] = [[(red[j][0], 15), (red[i][0], 4)]]
                    v2['specific'] = [[(red[i2][0], 8), (red[j2][0], 0)]]
                elif mode == 'listed+disallowed':
                    # the generic encoding of a pair is barred and a special encoding for exactly that pair is listed instead
                    # (same operand ids): disallowed pairs prune what the sets produce, never a listed combination
                    v1['disallowed'] = [red[i][0] + '0', red[j][0] + '1']
                    v1['specific'] = [[(red[i][0], 15), (red[j][0], 4)]]
                    v1['specific_same_ids'] = True
                group.append((f't{k}', [v1, v2]))
            run_group(acc, group, two_texts)
    # ---- a disallowed ordered pair when both slots use the same operand set (so the reversed pair has the same ids) ----
    shared_sets = [('reg_a', 'reg_b'), ('reg_a', 'numeric'), ('enum_foo', 'reg_b', 'numeric'), ('ind_num', 'reg_a')]
    for g0, sset in enumerate(shared_sets):
        for d0, d1 in itertools.permutations(sset, 2):
            ctr += 1
            if ctr % n != idx:
                continue
            s_codes = [(nm, 3 + x) for x, nm in enumerate(sset)]
            v1 = {'opcode': 0xD5, 'sets': [s_codes, s_codes], 'shared': True, 'disallowed': [d0, d1]}
            v2 = {'opcode': 0xD6, 'sets': [[(nm, 9 + x) for x, nm in enumerate(sset)], [(nm, 12 + x) for x, nm in enumerate(sset)]]}
            run_group(acc, [('t0', [v1, v2]), ('t1', [v1])], two_texts)
    # ---- explicit combinations with an empty operand (the "no operand written" form) ------------------------------
    singles_alts = ['reg_a', 'reg_b', 'numeric', 'ind_num', 'enum_foo', 'ind_reg_a']
    texts_e = [()] + [(t,) for t in ('a', 'b', '5', 'foo', '[5]', '[a]', 'sp')]
    plans = []
    for a1, a2 in itertools.product(singles_alts, repeat=2):
        for order in (0, 1, 2):
            plans.append((a1, a2, order))
    for g0 in range(0, len(plans), G):
        ctr += 1
        if ctr % n != idx:
            continue
        group = []
        for k, (a1, a2, order) in enumerate(plans[g0:g0 + G]):
            empty_combo = [('EMPTY', 14)]
            c1 = [(a1, 3)]
            combos = [empty_combo, c1] if order == 0 else [c1, empty_combo] if order == 1 else [empty_combo, c1, [(a2, 6)]]
            v1 = {'opcode': 0xF1, 'count': 1, 'sets': [[(a2, 9)]], 'specific': combos}
            group.append((f't{k}', [v1, {'opcode': 0xF2, 'sets': [[('numeric', 12), ('reg_b', 13)]]}]))
        run_group(acc, group, texts_e)
    # two written operands + a trailing empty one, listed before another explicit combination
    plans2 = list(itertools.product(singles_alts, repeat=3))
    texts_e2 = [(x, y) for x in ('a', '5', 'foo') for y in ('b', '5', '[5]')] + [('a',), ()]
    for g0 in range(0, len(plans2), G):
        ctr += 1
        if ctr % n != idx:
            continue
        group = []
        for k, (a1, a2, a3) in enumerate(plans2[g0:g0 + G]):
            v1 = {'opcode': 0xF3, 'count': 2, 'sets': [[(a1, 9)], [(a3, 10)]],
                  'specific': [[(a1, 2), ('EMPTY', 14)], [(a2, 3), (a3, 4)]]}
            group.append((f't{k}', [v1]))
            # ... and followed by a later variant whose operand count equals the number of operands written: definition order decides
            group.append((f'u{k}', [v1, {'opcode': 0xF4, 'sets': [[(a1, 9), (a2, 10)]]}]))
        run_group(acc, group, texts_e2)
    # a listed combination accepts exactly as many operands as it lists: more operands written than listed -> not this combination
    texts_more = texts_e2 + [(x, y, z) for x in ('a', '5') for y in ('b', '5') for z in ('5', 'a')]
    for g0 in range(0, len(singles_alts), G):
        ctr += 1
        if ctr % n != idx:
            continue
        group = []
        for k, a1 in enumerate(singles_alts[g0:g0 + G]):
            v1 = {'opcode': 0xFB, 'count': 1, 'sets': [], 'specific': [[(a1, 2)]]}
            v2 = {'opcode': 0xFC, 'sets': [[(a1, 9), ('reg_a', 10)] if a1 != 'reg_a' else [(a1, 9)], [('numeric', 12), ('reg_b', 13)]]}
            group.append((f'm{k}', [v1, v2]))
            group.append((f'n{k}', [{'opcode': 0xFD, 'count': 2, 'sets': [], 'specific': [[(a1, 2), ('numeric', 3)]]}]))
        run_group(acc, group, texts_more)
    for g0 in range(0, len(singles_alts), G):
        ctr += 1
        if ctr % n != idx:
            continue
        group = []
        for k, a1 in enumerate(singles_alts[g0:g0 + G]):
            # no operand written: an earlier variant that accepts it through an empty operand, later ones that take no operands at all
            v1 = {'opcode': 0xF6, 'count': 1, 'sets': [[(a1, 9)]], 'specific': [[('EMPTY', 14)]]}
            group.append((f'w{k}', [v1, {'opcode': 0xF7, 'sets': [], 'noops': True}]))
            group.append((f'x{k}', [v1, {'opcode': 0xF8, 'sets': []}]))
            group.append((f'y{k}', [{'opcode': 0xF9, 'sets': [], 'noops': True}, v1]))
            group.append((f'z{k}', [{'opcode': 0xFA, 'sets': []}, v1]))
        run_group(acc, group, texts_e)
    # ---- three variants, one slot --------------------------------------------------------------------------------
    tri = [s for s in subs if len(s) == 1] + [('reg_a', 'numeric'), ('enum_foo', 'numeric'), ('ind_num', 'ind_reg_a')]
    triples = list(itertools.product(range(len(tri)), repeat=3))
    for g0 in range(0, len(triples), G):
        ctr += 1
        if ctr % n != idx:
            continue
        group = []
        for k, (i, j, l) in enumerate(triples[g0:g0 + G]):
            group.append((f't{k}', [{'opcode': 0xE1, 'sets': [[(nm, 1 + x) for x, nm in enumerate(tri[i])]]},
                                    {'opcode': 0xE2, 'sets': [[(nm, 5 + x) for x, nm in enumerate(tri[j])]]},
                                    {'opcode': 0xE3, 'sets': [[(nm, 9 + x) for x, nm in enumerate(tri[l])]]}]))
        run_group(acc, group, one_texts)


RENAME_SETS = [('numeric', 'numeric_va'), ('numeric_va', 'numeric'), ('numeric', 'address'), ('address', 'numeric_va'), ('numbc', 'numeric'),
               ('numeric', 'numbc'), ('ind_num', 'ind_num_va'), ('ind_num_va', 'ind_num'), ('reg_a', 'reg_b', 'numeric'),
               ('enum_foo', 'reg_a', 'numeric_va', 'numeric'), ('idx_reg_a', 'ind_reg_a', 'ind_num')]


def renaming(acc, idx, n, ctr0):
    """The encoding depends only on the ordering in the definition: spelling the operand ids differently (alphabetical in definition
    order / reverse alphabetical) must not change any statement.  Also for sets whose alternatives the statement does not order
    among themselves (two numeric-like ones): whatever order the assembler uses, it cannot be the names."""
    ctr = ctr0
    header = [f'{k} = {v}' for k, v in LABELS.items()] + ['foo_x = 3']
    for alts in RENAME_SETS:
        for text in TEXTS:
            ctr += 1
            if ctr % n != idx:
                continue
            outs, cases = [], []
            for pre in ('asc', 'desc'):
                v = {'opcode': 0xB1, 'sets': [[(nm, 1 + x) for x, nm in enumerate(alts)]], 'idprefix': pre}
                cfg, sets = build_instruction('rn', [v])
                isa = {'general': {'address_size': 16, 'endian': 'big', 'registers': REGS, 'min_version': '0.3.0'},
                       'operand_sets': sets, 'instructions': {'rn': cfg}}
                case = Case(isa, '\n'.join(header + [f'    rn {text}']) + '\n')
                cases.append(case)
                outs.append(acc.run(case))
            spec = {'type': 'renaming', 'set': list(alts), 'statement': f'rn {text}'}
            msg = judge_renaming(spec, outs)
            if msg:
                acc.violation(cases, spec, f'rn {text} with operand set {list(alts)}: {msg}', outs)
            acc.judge(clause='names-carry-no-meaning', nontrivial_distinct=True)
    return ctr


def numeric_enumeration_sets(acc, idx, n, ctr0):
    """An operand set that holds a numeric enumeration (keys are numbers / expressions) next to registers: a register name is a
    register, never the enumeration's expression, in either definition order."""
    ctr = ctr0
    ne = {'type': 'numeric_enumeration', 'bytecode': {'size': 4, 'value_dict': {1: 5, 2: 6}}}
    ne_arg = {'type': 'numeric_enumeration', 'argument': {'size': 8, 'byte_align': True, 'value_dict': {1: 0x51, 2: 0x52}}}
    ra = {'type': 'register', 'register': 'a', 'bytecode': {'value': 9, 'size': 4}}
    rb = {'type': 'register', 'register': 'b', 'bytecode': {'value': 10, 'size': 4}}
    expect = {'a': [0xB2, 0x90], 'A': [0xB2, 0x90], 'b': [0xB2, 0xA0]}
    for which, nedef in (('code', ne), ('argument', ne_arg)):
        exp = dict(expect)
        exp.update({'1': [0xB2, 0x50], '2': [0xB2, 0x60], 'lbl - 8': [0xB2, 0x50]} if which == 'code' else
                   {'1': [0xB2, 0x51], '2': [0xB2, 0x52], 'lbl - 8': [0xB2, 0x51]})
        for order in (('ne', 'ra', 'rb'), ('ra', 'ne', 'rb'), ('rb', 'ra', 'ne')):
            defs = {'ne': nedef, 'ra': ra, 'rb': rb}
            isa = {'general': {'address_size': 16, 'endian': 'big', 'registers': REGS, 'min_version': '0.3.0'},
                   'operand_sets': {'mix': {'operand_values': {k: defs[k] for k in order}}},
                   'instructions': {'op': {'bytecode': {'value': 0xB2, 'size': 8}, 'operands': {'count': 1, 'operand_sets': {'list': ['mix']}}}}}
            for text, data in exp.items():
                ctr += 1
                if ctr % n != idx:
                    continue
                case = Case(isa, f'lbl = 9\n    op {text}\n', isa_yaml=True)
                out = acc.run(case)
                spec = {'expect': 'OK', 'image_hex': bytes(data).hex(), 'statement': f'op {text}', 'set_order': list(order)}
                msg = judge_expect(spec, [out])
                if msg:
                    acc.violation([case], spec, f'op {text} with operand set order {order} ({which} enumeration): {msg}', [out])
                acc.judge(clause='register-not-numeric', nontrivial_distinct=True)
    return ctr


def judge_renaming(spec, outs):
    a, b = outs
    if a.status != b.status:
        return f'with ids in alphabetical order: {a.status} ({a.detail}); with the same definition and ids in reverse alphabetical order: {b.status} ({b.detail})'
    if a.image != b.image:
        return (f'encoding {a.image.hex() if a.image else None} with ids in alphabetical order, '
                f'{b.image.hex() if b.image else None} with ids in reverse alphabetical order')
    return None


def judge(spec, outcomes):
    if spec.get('type') == 'renaming':
        return judge_renaming(spec, outcomes)
    return judge_expect(spec, outcomes)
