"""C17 - including a file is equivalent to assembling its text in place.

Every program over a line alphabet up to the length bound x every way to cut one contiguous block
(and, nested, a sub-block of it) out into included files; plus the product of file placements over
include directories.  Oracles: the reference include semantics of mc/refasm.py, and - where the
moved block is scope/zone neutral - a differential comparison of the split with the unsplit
program, both executed by the real assembler.
"""
import itertools

from mc import refasm as R
from mc.histories import histories, run_program
from mc.judges import expect_spec, judge_expect
from mc.probe_isa import probe_isa
from mc.world import Case

ID = 'C17'
LEVEL = 'model_checking'

ZONES = [{'name': 'zz', 'start': 0x40, 'end': 0x5F}]
PARAMS = R.Params(address_size=16, endian='little', zones=ZONES)
ISA = probe_isa(16, 'little', zones=ZONES)


def sigma(i):
    m = 0x21 + i
    return [
        [('label', 'G1'), ('nop',)],
        [('label', 'G2'), ('data', 1, [m])],
        [('label', '_f1'), ('nop',)],
        [('label', '.l1'), ('nop',)],
        [('jmp', ('lab', 'G1'))],
        [('data', 1, [('lab', '_f1')])],
        [('data', 1, [('lab', '.l1')])],
        [('data', 1, [m])],
        [('memzone', 'zz')],
        [('org', 0x10 + 8 * i, None)],
        [('mute',)],
        [('unmute',)],
        [('if', ('num', 0)), ('data', 1, [0x77]), ('endif',)],
    ]


NSYM = len(sigma(0))
NEUTRAL = {4, 7, 9, 10, 11, 12}        # units that neither define nor use file/local names nor switch zone


def meta(tier):
    q = tier == 'quick'
    return {
        'rule': 'include file names that contain the name of a preprocessor symbol (6 names x 3 definition sources x {main file, nested include}: the named file is pasted, a missing one stays missing); every program of up to L units over the 13-unit alphabet x every contiguous block (i,j) moved into inc.asm x every '
                'sub-block of it moved into inc2.asm; judged against the reference include semantics (fresh file scope, GLOBAL zone '
                'inside, includer zone and local region resumed, mute state carried) and, for scope/zone-neutral blocks cut while '
                'GLOBAL is selected, differentially against the real assembly of the unsplit program; plus a placement product '
                '(unique / duplicated (as a copy and as a symbolic link) / missing file, same directory twice, file included twice, self-include, nested include '
                'across directories); plus every include graph over three files (main includes one or two, the others nothing or one of the three; cycles, self-includes, diamonds) x each file with or without an #ifndef include guard, accepted iff no file is reached twice; plus every sequence of up to 3 live / dead (#ifdef, #if 0, #else) includes of two files and a missing one: a dead #include includes nothing, looks nothing up, counts for nothing; plus an included file that is a symbolic link, included once / twice / through two includers, from the main or a search directory; non-trivial = split whose moved block is non-empty and whose program mentions a label; '
                'states = distinct (program, cut) reference states',
        'bounds': {'alphabet': [R.render(u).strip().replace('\n', ' / ') for u in sigma(0)], 'length': '4 (all units)' if q else '4 (all units), 5 (9 core units)',
                   'cuts': 'all 0<=i<j<=L, nested all i<=k<l<=j (quick: nested only for L<=3)'},
        'assumptions': ['reference model: mc/refasm.py', 'a conditional chain is never split across files (units are whole chains)'],
        'floors': {'evaluations': 1000, 'nontrivial': 100, 'statuses': ['OK', 'REJECT'],
                   'clauses': ['split-accepted', 'split-rejected', 'differential', 'placement-rejected', 'placement-accepted', 'graph-accepted', 'graph-rejected', 'dead-include-accepted', 'dead-include-rejected', 'name-not-rewritten']},
        'nshards': 64,
    }


def flat(units):
    out = []
    for u in units:
        out += u
    return out


def shard(acc, tier, idx, n):
    q = tier == 'quick'
    L = 4 if q else 5
    tail = [('label', 'G9'), ('data', 1, [0xEE])]
    CORE_UNITS = {0, 2, 3, 4, 5, 6, 8, 9, 10}
    for h in histories(list(range(NSYM)), L, idx, n):
        if len(h) == 0:
            continue
        if not q and len(h) == L and not all(x in CORE_UNITS for x in h):
            continue        # thorough tier: the deepest level only over the 9 core units
        units = [sigma(i)[j] for i, j in enumerate(h)]
        whole = {'main.asm': flat(units) + tail}
        ref_whole = R.assemble(PARAMS, whole)
        out_whole = None
        for i in range(len(h)):
            for j in range(i + 1, len(h) + 1):
                if ref_whole.status != 'OK' and (i, j) != (0, len(h)):
                    continue        # programs that are invalid even unsplit: only the "move everything" cut
                splits = [(None, None)]
                if (not q) or len(h) <= 3:
                    splits += [(k, l) for k in range(i, j) for l in range(k + 1, j + 1) if (k, l) != (i, j)]
                for (k, l) in splits:
                    if k is None:
                        inc = flat(units[i:j])
                        files = {'main.asm': flat(units[:i]) + [('include', 'inc.asm')] + flat(units[j:]) + tail, 'inc.asm': inc}
                    else:
                        inc = flat(units[i:k]) + [('include', 'inc-2.b_x.asm')] + flat(units[l:j])
                        files = {'main.asm': flat(units[:i]) + [('include', 'inc.asm')] + flat(units[j:]) + tail,
                                 'inc.asm': inc, 'inc-2.b_x.asm': flat(units[k:l])}
                    has_label = any(x in (0, 1, 2, 3, 4, 5, 6) for x in h)
                    ref, out, msg = run_program(
                        acc, PARAMS, ISA, files,
                        clause=lambda r: 'split-accepted' if r.status == 'OK' else 'split-rejected',
                        nontrivial=(h, i, j, k, l) if has_label else None, sample=(len(h) == L and i == 1 and j == 3 and k is None))
                    acc.state((h, i, j, k, l, ref.status))
                    # ---- differential against the unsplit program (two executions of the real code) -------------
                    zone_global = not any(x == 8 for x in h[:i])
                    if k is None and zone_global and all(x in NEUTRAL for x in h[i:j]) and ref_whole.status == 'OK':
                        if out_whole is None:
                            out_whole = acc.run(Case(ISA, R.render_files(whole)))
                            acc.transition()
                        spec = {'type': 'equal', 'note': 'split vs unsplit'}
                        cases = [Case(ISA, R.render_files(files)), Case(ISA, R.render_files(whole))]
                        m = judge_equal(spec, [out, out_whole])
                        if m:
                            acc.violation(cases, spec, m, [out, out_whole])
                        acc.judge(clause='differential')     # (same executions as the split judgement: not counted again as a distinct case)
    placements(acc, idx, n)
    include_graphs(acc, idx, n)
    dead_includes(acc, idx, n)
    linked_includes(acc, idx, n)
    symbols_and_file_names(acc, idx, n)


def judge_equal(spec, outs):
    a, b = outs
    if a.status != b.status:
        return f'split program: {a.status} ({a.detail}), unsplit program: {b.status} ({b.detail})'
    if a.status == 'OK' and a.image != b.image:
        return f'split image {a.image.hex()} != unsplit image {b.image.hex()}'
    return None


INC = [('label', 'GI'), ('data', 1, [0x51])]
INC_B = [('data', 1, [0x52])]


def placements(acc, idx, n):
    ctr = 0
    body_after = [('data', 2, [('lab', 'GI')]), ('data', 1, [0xEE])]
    dirsets = [(), ('d1',), ('d1', 'd2'), ('d1', 'd1'), ('d2', 'd1'), ('d1', 'd2', 'd1'), ('.',), ('d1', '.'),
               # a directory named twice (or the main file's own directory named again) with another directory after it
               ('d1', 'd1', 'd2'), ('.', 'd1'), ('.', 'd2', 'd1'), ('d2', 'd2', 'd1')]
    places = [(), ('',), ('d1',), ('d2',), ('', 'd1'), ('d1', 'd2'), ('', 'd2'), ('d3',)]
    # a file reached through a nested include and then included again (directly, or through a second child: a diamond)
    for order in itertools.permutations(['inc.asm', 'deep.asm', 'inc-b.asm'], 2):
        for dirs in ((), ('d2',)):
            ctr += 1
            if ctr % n != idx:
                continue
            files = {'inc.asm': INC + [('include', 'deep.asm')], 'inc-b.asm': [('data', 1, [0x53]), ('include', 'deep.asm')],
                     ('d2/deep.asm' if dirs else 'deep.asm'): INC_B,
                     'main.asm': [('data', 1, [0x50])] + [('include', f) for f in order] + [('data', 1, [0xEE])]}
            ref = R.RefAsm(PARAMS, files, 'main.asm', dirs).run()
            case = Case(ISA, R.render_files(files), incdirs=dirs)
            out = acc.run(case)
            acc.transition()
            spec = expect_spec(ref)
            msg = judge_expect(spec, [out])
            if msg:
                acc.violation([case], spec, f'includes {order} dirs={dirs}: {msg}', [out])
            acc.judge(clause='placement-accepted' if ref.status == 'OK' else 'placement-rejected', nontrivial_key=('deep', order, dirs))
            acc.state(('deep', order, dirs))
    for dirs, where, twice, selfinc, nested in itertools.product(dirsets, places, (False, True), (False, True), (False, True)):
        ctr += 1
        if ctr % n != idx:
            continue
        files = {}
        for w in where:
            files[(w + '/' if w else '') + 'inc.asm'] = (INC if not nested else INC + [('include', 'deep.asm')])
        if nested:
            files['d2/deep.asm'] = INC_B
        main = [('data', 1, [0x50]), ('include', 'inc.asm')]
        if twice:
            main.append(('include', 'inc.asm'))
        if selfinc:
            main.append(('include', 'main.asm'))
        files['main.asm'] = main + body_after
        incdirs = tuple(d for d in dirs if d != '.')
        rdirs = tuple('' if d == '.' else d for d in dirs)
        ref = R.RefAsm(PARAMS, files, 'main.asm', rdirs).run()
        case = Case(ISA, R.render_files(files), incdirs=dirs)
        out = acc.run(case)
        acc.transition()
        if ref.status == 'DC':
            acc.dc(ref.reason)
            continue
        spec = expect_spec(ref)
        msg = judge_expect(spec, [out])
        if msg:
            acc.violation([case], spec, f'dirs={dirs} file at {where}: {msg}', [out])
        acc.judge(clause='placement-accepted' if ref.status == 'OK' else 'placement-rejected',
                  nontrivial_key=('p', dirs, where, twice, selfinc, nested))
        acc.state(('p', dirs, where, twice, selfinc, nested))
        if ctr % 37 == 0:
            acc.sample({'include_dirs': dirs, 'files': {k: R.render(v) for k, v in files.items()}, 'reference': spec})
        if len(where) == 2:
            # the same two placements, the second one being a symbolic link to the first: still one name in two directories
            texts = R.render_files(files)
            first = (where[0] + '/' if where[0] else '') + 'inc.asm'
            second = (where[1] + '/' if where[1] else '') + 'inc.asm'
            texts[second] = '@symlink:' + ('../' if where[1] else '') + first
            case_l = Case(ISA, texts, incdirs=dirs)
            out_l = acc.run(case_l)
            acc.transition()
            spec_l = dict(spec, note='second placement is a symbolic link to the first')
            msg = judge_expect(spec_l, [out_l])
            if msg:
                acc.violation([case_l], spec_l, f'dirs={dirs} file at {where[0] or "."} and a link to it at {where[1]}: {msg}', [out_l])
            acc.judge(clause='placement-accepted' if ref.status == 'OK' else 'placement-rejected',
                      nontrivial_key=('pl', dirs, where, twice, selfinc, nested))


def include_graphs(acc, idx, n):
    """Every include graph over {main, a, b}: main includes one or two files in order, a and b each include nothing or one of the three;
    each file with or without a C-style include guard (#ifndef G / #define G / ... / #endif around its whole text).  A guard does not
    make a second inclusion legal: the program is accepted iff no file is reached twice (a skipped #include does not count)."""
    ctr = 0
    names = {'main': 'main.asm', 'a': 'ga.asm', 'b': 'gb.asm'}
    marks = {'main': 0x50, 'a': 0x60, 'b': 0x70}
    for mains in (('a',), ('b',), ('a', 'b'), ('b', 'a'), ('a', 'a'), ('main',), ('a', 'main')):
        for ea, eb in itertools.product((None, 'main', 'a', 'b'), repeat=2):
            for guards in itertools.product((False, True), repeat=3):
                ctr += 1
                if ctr % n != idx:
                    continue
                files = {}
                for (f, edges), g in zip((('main', mains), ('a', (ea,)), ('b', (eb,))), guards):
                    body = [('data', 1, [marks[f]])] + [('include', names[e]) for e in edges if e is not None] + [('data', 1, [marks[f] + 1])]
                    if g:
                        body = [('ifndef', 'G_' + f.upper()), ('define', 'G_' + f.upper(), '1')] + body + [('endif',)]
                    files[names[f]] = body
                ref = R.assemble(PARAMS, files)
                case = Case(ISA, R.render_files(files))
                out = acc.run(case)
                acc.transition()
                if ref.status == 'DC':
                    acc.dc(ref.reason)
                    continue
                spec = expect_spec(ref)
                msg = judge_expect(spec, [out])
                if msg:
                    acc.violation([case], spec, f'include graph main->{mains} a->{ea} b->{eb} guards={guards}: {msg}', [out])
                acc.judge(clause='graph-accepted' if ref.status == 'OK' else 'graph-rejected', nontrivial_key=('g', mains, ea, eb, guards))
                acc.state(('g', mains, ea, eb, guards))
                if ctr % 97 == 0:
                    acc.sample({'files': {k: R.render(v) for k, v in files.items()}, 'reference': spec})


def dead_includes(acc, idx, n):
    """An #include line in an unselected conditional branch is text like any other unselected line: it includes nothing, looks nothing
    up and does not count as an inclusion.  Every sequence of up to 3 items over live / dead includes of two files and of a missing
    file, the dead ones under #ifdef UNDEFINED, #if 0 and the #else of a taken #if."""
    ctr = 0
    wrappers = {'ifdef': ([('ifdef', 'NOT_DEFINED')], [('endif',)]),
                'if0': ([('if', ('num', 0))], [('endif',)]),
                'else': ([('if', ('num', 1)), ('data', 1, [0x5A]), ('else',)], [('endif',)])}
    items = [('live', 'ga.asm'), ('live', 'gb.asm'), ('dead', 'ga.asm'), ('dead', 'gb.asm'), ('dead', 'missing.asm'), ('live', 'missing.asm')]
    for k in (1, 2, 3):
        for seq in itertools.product(items, repeat=k):
            if not any(kind == 'dead' for kind, _ in seq):
                continue
            for wname, (pre, post) in wrappers.items():
                ctr += 1
                if ctr % n != idx:
                    continue
                main = [('data', 1, [0x50])]
                for kind, f in seq:
                    main += (pre + [('include', f)] + post) if kind == 'dead' else [('include', f)]
                main += [('data', 2, [('lab', 'GA')]), ('data', 1, [0xEE])]
                files = {'main.asm': main, 'ga.asm': [('label', 'GA'), ('data', 1, [0x61])], 'gb.asm': [('data', 1, [0x71]), ('include', 'ga.asm')]}
                if not any(kind == 'live' and f in ('ga.asm', 'gb.asm') for kind, f in seq):
                    files['main.asm'] = main[:-2] + [('label', 'GA'), ('data', 2, [('lab', 'GA')]), ('data', 1, [0xEE])]
                ref = R.assemble(PARAMS, files)
                case = Case(ISA, R.render_files(files))
                out = acc.run(case)
                acc.transition()
                if ref.status == 'DC':
                    acc.dc(ref.reason)
                    continue
                spec = expect_spec(ref)
                msg = judge_expect(spec, [out])
                if msg:
                    acc.violation([case], spec, f'includes {seq} (dead ones under {wname}): {msg}', [out])
                acc.judge(clause='dead-include-accepted' if ref.status == 'OK' else 'dead-include-rejected', nontrivial_key=('d', seq, wname))
                acc.state(('d', seq, wname))
                if ctr % 101 == 0:
                    acc.sample({'files': {k: R.render(v) for k, v in files.items()}, 'reference': spec})


def symbols_and_file_names(acc, idx, n):
    """The name between the quotes of an #include line is a file name, not program text: a preprocessor symbol (from #define, -D or the
    definition) spelled like a part of that name changes nothing - the named file is pasted in, and a missing file stays missing even
    when the rewritten name would exist."""
    ctr = 0
    rows = [
        # (symbol, replacement, included name, files besides main, body of the included file, bytes it contributes, accepted?)
        ('board', '7', 'board.asm', {'7.asm': '    .byte $55\n'}, '    .byte 9, board\n', [9, 7], True),
        ('DEBUG', '9', 'lib-DEBUG.asm', {'lib-9.asm': '    .byte $55\n'}, '    .byte DEBUG\n', [9], True),
        ('asm', 'txt', 'tab.asm', {'tab.txt': '    .byte $55\n'}, '    .byte 3\n', [3], True),
        ('v2', '3', 'cpu.v2.asm', {'cpu.3.asm': '    .byte $55\n'}, '    .byte v2\n', [3], True),
        ('absent', 'present', 'absent.asm', {'present.asm': '    .byte $55\n'}, None, None, False),
        ('gone', '5', 'gone.asm', {'5.asm': '    .byte $55\n'}, None, None, False),
    ]
    for (sym, repl, fname, extra, body, contrib, ok), src, where in itertools.product(rows, ('define', 'cli', 'isa'), ('main', 'nested')):
        ctr += 1
        if ctr % n != idx:
            continue
        head = [f'#define {sym} {repl}'] if src == 'define' else []
        inc = f'#include "{fname}"'
        files = dict(extra)
        if body is not None:
            files[fname] = body
        if where == 'main':
            files['main.asm'] = '\n'.join(head + ['    .byte $50', inc, '    .byte $EE']) + '\n'
        else:
            files['main.asm'] = '\n'.join(head + ['    .byte $50', '#include "mid.asm"', '    .byte $EE']) + '\n'
            files['mid.asm'] = inc + '\n'
        isa = probe_isa(16, 'little', symbols=[{'name': sym, 'value': repl}] if src == 'isa' else None)
        case = Case(isa, files, defines=(f'{sym}={repl}',) if src == 'cli' else ())
        out = acc.run(case)
        acc.transition()
        if ok:
            spec = {'expect': 'OK', 'image_hex': bytes([0x50] + contrib + [0xEE]).hex(), 'why': f'{fname} is pasted in place'}
        else:
            spec = {'expect': 'REJECT', 'why': f'{fname} does not exist'}
        msg = judge_expect(spec, [out])
        if msg:
            acc.violation([case], spec, f'#include "{fname}" while {sym} is a symbol ({src}) meaning {repl}, include line in {where}: {msg}', [out])
        acc.judge(clause='name-not-rewritten', nontrivial_key=('symname', sym, src, where))


def linked_includes(acc, idx, n):
    """An included file that is a symbolic link is a file like any other: included once it is pasted in place, reached a second time
    (directly, through two includers, from another directory) it is rejected."""
    ctr = 0
    table = [('data', 1, [0xAA, 0xBB])]
    shapes = {
        'once': [('include', 'tables.asm')],
        'twice directly': [('include', 'tables.asm'), ('include', 'tables.asm')],
        'through two includers': [('include', 'pa.asm'), ('include', 'pb.asm')],
        'directly and through an includer': [('include', 'tables.asm'), ('include', 'pa.asm')],
        'through an includer and directly': [('include', 'pb.asm'), ('include', 'tables.asm')],
    }
    for (sname, incs), where, linked in itertools.product(shapes.items(), ('', 'd1'), (False, True)):
        ctr += 1
        if ctr % n != idx:
            continue
        tdir = where + '/' if where else ''
        files = {'main.asm': [('data', 1, [0x50])] + incs + [('data', 1, [0xEE])], tdir + 'tables.asm': table,
                 'pa.asm': [('data', 1, [0x61]), ('include', 'tables.asm')], 'pb.asm': [('data', 1, [0x71]), ('include', 'tables.asm')]}
        dirs = (where,) if where else ()
        ref = R.RefAsm(PARAMS, files, 'main.asm', dirs).run()
        texts = R.render_files(files)
        if linked:
            texts['real/tables_v2.asm'] = texts[tdir + 'tables.asm']
            texts[tdir + 'tables.asm'] = '@symlink:' + ('../' if where else '') + 'real/tables_v2.asm'
        case = Case(ISA, texts, incdirs=dirs)
        out = acc.run(case)
        acc.transition()
        if ref.status == 'DC':
            acc.dc(ref.reason)
            continue
        spec = expect_spec(ref)
        msg = judge_expect(spec, [out])
        if msg:
            acc.violation([case], spec, f'tables.asm ({"a symbolic link" if linked else "a regular file"} in {where or "the main directory"}) included {sname}: {msg}', [out])
        acc.judge(clause='placement-accepted' if ref.status == 'OK' else 'placement-rejected', nontrivial_key=('link', sname, where, linked))
        acc.state(('link', sname, where, linked))


def judge(spec, outcomes):
    if spec.get('type') == 'equal':
        return judge_equal(spec, outcomes)
    return judge_expect(spec, outcomes)
