"""C18 - output is invariant under meaning-preserving changes of surface syntax.

Base programs (token-structured) x every subset of rewrite sites for each rewrite kind; the real
assembler is run on the base rendering and on every rewritten rendering and the outcomes (status,
image) must be identical.
"""
import itertools

from mc.world import Case
from mc.props import c10

ID = 'C18'
LEVEL = 'model_checking'

ISA = dict(c10.BASE_ISA)
ISA['operand_sets'] = dict(ISA['operand_sets'])
ISA['operand_sets']['spx'] = {'operand_values': {'sx': {'type': 'indirect_register', 'register': 'sp', 'bytecode': {'value': 3, 'size': 4},
                                                        'offset': {'size': 8, 'byte_align': True}}}}
ISA['instructions'] = dict(ISA['instructions'])
ISA['instructions']['lda'] = {'bytecode': {'value': 0xB, 'size': 4}, 'operands': {'count': 1, 'operand_sets': {'list': ['spx']}}}
ISA['operand_sets']['idx'] = {'operand_values': {'ix': {'type': 'indexed_register', 'register': 'b', 'bytecode': {'value': 2, 'size': 4},
                                                        'index_operands': {'i': {'type': 'numeric', 'argument': {'size': 8, 'byte_align': True}}}}}}
# one operand set with an offset form and a register-indexed form on the same base register: `[sp+a]` is the indexed form however
# the register names are written
ISA['operand_sets']['spxi'] = {'operand_values': {
    'so': {'type': 'indirect_register', 'register': 'sp', 'bytecode': {'value': 4, 'size': 4}, 'offset': {'size': 8, 'byte_align': True}},
    'si': {'type': 'indirect_indexed_register', 'register': 'sp', 'bytecode': {'value': 5, 'size': 4},
           'index_operands': {'ia': {'type': 'register', 'register': 'a', 'bytecode': {'value': 1, 'size': 4}}}}}}
ISA['instructions']['ldz'] = {'bytecode': {'value': 0xD, 'size': 4}, 'operands': {'count': 1, 'operand_sets': {'list': ['spxi']}}}
ISA['instructions']['ldq'] = {'bytecode': {'value': 0xC, 'size': 4}, 'operands': {'count': 1, 'operand_sets': {'list': ['idx']}}}

ISA['operand_sets']['dfr'] = {'operand_values': {'dn': {'type': 'deferred_numeric', 'bytecode': {'value': 6, 'size': 4}, 'argument': {'size': 16, 'byte_align': True}}}}
ISA['instructions']['ldd'] = {'bytecode': {'value': 0xE, 'size': 4}, 'operands': {'count': 1, 'operand_sets': {'list': ['dfr']}}}
# macros are invoked like instructions: anywhere on a line that holds several statements
ISA['macros'] = {'push2': [{'operands': {'count': 1, 'operand_sets': {'list': ['imm']}}, 'instructions': ['n12 @ARG(0)', 'nop']}],
                 'swp': [{'instructions': ['push a', 'push b']}]}

# statement = (label or None, head or None, [operands], is_instruction)
# operand = str | ('reg', name) | ('ireg', name, offset) | ('ind', text)
CATALOGUE = [
    (None, 'nop', [], True),
    (None, 'ldi', [('reg', 'a'), '5'], True),
    (None, 'ldi', [('reg', 'b'), 'lab+1'], True),
    (None, 'push', [('reg', 'a')], True),
    (None, 'ldm', [('ind', 'lab')], True),
    (None, 'sel', ['foo'], True),
    (None, 'brr', ['lab'], True),
    (None, 'jmp', ['nop_x'], True),
    (None, 'n12', ['A1'], True),
    (None, 'lda', [('ireg', 'sp', '2')], True),
    (None, 'ldq', [('xreg', 'b', '4')], True),
    (None, 'ldz', [('iireg', 'sp', 'a')], True),
    (None, 'ldz', [('ireg', 'sp', 'A1')], True),
    (None, '.byte', ['1', '2', 'A1'], False),
    (None, '.2byte', ['lab'], False),
    (None, '.fill', ['2', '1'], False),
    ('mid', 'nop', [], True),
    ('m2', 'ldi', [('reg', 'a'), '9'], True),
    ('dl', '.byte', ['7'], False),
    ('sc', '.byte', ['1', "';'", '4'], False),          # a semicolon inside a character literal / string is not a comment
    ('ms', '.cstr', ['"a;b"'], False),
    (None, '.byte', ['"x;y"'], False),
    ('ms2', '.cstr', ['"ms2: x ms2:"'], False),          # the label's own text inside the string it labels
    ('e', '.byte', ['"the: e: end"'], False),
    ('pth', '.cstr', ['"C:\\\\"'], False),           # the string ends in an escaped backslash: C:\\ 
    (None, '.byte', ['"q\\\\"'], False),
    (None, 'ldd', [('dind', 'lab')], True),
    (None, 'ldd', [('dind', 'lab+1')], True),
    # macro invocations (joined with other statements on one line like any instruction)
    (None, 'push2', ['5'], True),
    (None, 'swp', [], True),
    ('mm', 'push2', ['lab+1'], True),
    # a literal delimited by one kind of quote that contains the other kind
    ('ap', '.cstr', ['"it\'s"'], False),
    (None, 'ldi', [('reg', 'a'), "'\"'"], True),
    (None, '.byte', ['"say \'hi\'"'], False),
    # directives and preprocessor lines take comments, blank lines and whitespace like any other line
    (None, '#include', ['"inc18.asm"'], False),
    (None, '.org', ['$40'], False),
    (None, '#define', ['QQ'], False),
    (None, '.align', ['4'], False),
]
FILES_EXTRA = {'inc18.asm': 'inc18: .byte $5A\n    nop\n'}
HEADER = [('lab', None, [], False), (None, 'nop', [], True)]
FOOTER = [('nop_x', 'nop', [], True)]
CONSTS = 'A1 = 3\nkv = 5\nKV = 6\n'

VARIANTS = {
    'mnemonic-case': [1, 2],
    'register-case': [1],
    'separator': ['\t', '   ', ' \t'],
    'comma': [',', ' , ', ',\t'],
    'bracket-padding': [' '],
    'indent': ['    ', '\t'],
    'blank-line': [1],
    'comment': ['; note', ';nop "q', '   ; x = 1, y', '; the user sees "it\'s" here'],
    'label-own-line': [1],
    'join': [' ', '\t', ' \t', '   '],         # the whitespace between two instructions written on one line
}


SPACE_JOINED = {'#define', '#create_memzone'}       # their arguments are separated by whitespace, not commas


def sites(prog, kind):
    out = []
    for i, (label, head, ops, is_instr) in enumerate(prog):
        if kind == 'mnemonic-case' and is_instr:
            out.append(i)
        elif kind == 'register-case':
            out += [(i, k) for k, o in enumerate(ops) if isinstance(o, tuple) and o[0] in ('reg', 'ireg', 'xreg', 'iireg')]
        elif kind == 'separator' and head and ops:
            out.append(i)
        elif kind == 'comma' and head not in SPACE_JOINED:
            out += [(i, k) for k in range(1, len(ops))]
        elif kind == 'bracket-padding':
            out += [(i, k) for k, o in enumerate(ops) if isinstance(o, tuple) and o[0] in ('ireg', 'ind', 'dind', 'xreg', 'iireg')]
        elif kind in ('indent', 'blank-line', 'comment'):
            out.append(i)
        elif kind == 'label-own-line' and label and head:
            out.append(i)
        elif kind == 'join' and i > 0 and is_instr and prog[i - 1][3] and not label:
            out.append(i)
    return out


def render(prog, choice):
    """choice: {(kind, site): variant}"""
    lines = []
    for i, (label, head, ops, is_instr) in enumerate(prog):
        h = head or ''
        mc = choice.get(('mnemonic-case', i))
        if mc == 1:
            h = h.upper()
        elif mc == 2:
            h = h[0].upper() + h[1:] if len(h) > 1 else h.upper()
        parts = []
        for k, o in enumerate(ops):
            up = choice.get(('register-case', (i, k)))
            pad = choice.get(('bracket-padding', (i, k)), '')
            if isinstance(o, tuple):
                if o[0] == 'reg':
                    t = o[1].upper() if up else o[1]
                elif o[0] == 'ireg':
                    r = o[1].upper() if up else o[1]
                    t = f'[{pad}{r}{pad}+{pad}{o[2]}{pad}]'
                elif o[0] == 'iireg':
                    r, x = (o[1].upper(), o[2].upper()) if up else (o[1], o[2])
                    t = f'[{pad}{r}{pad}+{pad}{x}{pad}]'
                elif o[0] == 'xreg':
                    r = o[1].upper() if up else o[1]
                    t = f'{r}{pad}+{pad}{o[2]}'
                elif o[0] == 'dind':
                    t = f'[{pad}[{pad}{o[1]}{pad}]{pad}]'          # a deferred operand: blanks between the brackets as well
                else:
                    t = f'[{pad}{o[1]}{pad}]'
            else:
                t = o
            parts.append(t)
        text = h
        if parts:
            sep = choice.get(('separator', i), ' ')
            body = parts[0]
            for k in range(1, len(parts)):
                body += (sep if head in SPACE_JOINED else choice.get(('comma', (i, k)), ', ')) + parts[k]
            text = h + sep + body
        indent = choice.get(('indent', i), '')
        comment = choice.get(('comment', i))
        if choice.get(('blank-line', i)):
            lines.append('')
        if label and head:
            if choice.get(('label-own-line', i)):
                lines.append(f'{label}:')
                cur = indent + text
            else:
                cur = f'{label}: {text}'
        elif label:
            cur = f'{label}:'
        else:
            cur = indent + text
        if choice.get(('join', i)) and lines and not choice.get(('comment', i - 1)) and not choice.get(('blank-line', i)):
            # glue to the previous instruction line (which carries no comment when joining is chosen)
            lines[-1] = lines[-1] + choice[('join', i)] + text
            if comment:
                lines[-1] += ' ' + comment
            continue
        if comment:
            cur += ' ' + comment
        lines.append(cur)
    return CONSTS + '\n'.join(lines) + '\n'


# programs about local-label regions: the same local name in several regions, non-local labels in front of statements that
# define or use a local label
SCOPE_PROGRAMS = [
    [('lab', None, [], False), ('.dn', 'nop', [], True), (None, 'jmp', ['.dn'], True), ('second', 'jmp', ['.dn'], True), ('.dn', 'nop', [], True),
     ('third', '.2byte', ['.dn'], False), ('.dn', 'nop', [], True), ('nop_x', 'nop', [], True)],
    [('lab', 'nop', [], True), ('.lp', 'brr', ['.lp'], True), ('_fl', 'ldi', [('reg', 'a'), '.lp'], True), ('.lp', 'jmp', ['_fl'], True),
     ('nop_x', 'brr', ['.q'], True), ('.q', 'nop', [], True)],
    [('lab', None, [], False), (None, 'nop', [], True), ('.a1', '.byte', ['.a1'], False), ('g2', '.byte', ['.a1', '7'], False), ('.a1', 'nop', [], True),
     ('nop_x', None, [], False)],
]


# programs made of preprocessor lines (a keyword and its argument are tokens like any others)
PREPROC_PROGRAMS = [
    [('lab', None, [], False), (None, '#if', ['A1 == 3'], False), (None, 'nop', [], True), (None, '#elif', ['A1 == 4'], False),
     (None, 'ldi', [('reg', 'a'), '5'], True), (None, '#else', [], False), (None, 'push', [('reg', 'a')], True), (None, '#endif', [], False),
     ('nop_x', 'nop', [], True)],
    [('lab', None, [], False), (None, '#ifdef', ['A9'], False), (None, 'nop', [], True), (None, '#endif', [], False),
     (None, '#ifndef', ['A9'], False), (None, 'ldi', [('reg', 'b'), '7'], True), (None, '#endif', [], False), ('nop_x', 'nop', [], True)],
    [('lab', None, [], False), (None, '#create_memzone', ['zq', '$60', '$6F'], False), (None, '.memzone', ['zq'], False), (None, '.byte', ['1'], False),
     (None, '#mute', [], False), (None, '.byte', ['2'], False), (None, '#unmute', [], False), ('nop_x', 'nop', [], True)],
    [('lab', None, [], False), (None, '#define', ['QV', '5'], False), (None, '#if', ['QV'], False), (None, '.byte', ['QV'], False),
     (None, '#endif', [], False), ('nop_x', 'nop', [], True)],
    # a symbol whose replacement text is compared as a string: the whitespace in front of the text is not part of it
    [('lab', None, [], False), (None, '#define', ['QM', 'fast'], False), (None, '#if', ['QM == "fast"'], False), (None, '.byte', ['1'], False),
     (None, '#elif', ['QM == fast'], False), (None, '.byte', ['2'], False), (None, '#else', [], False), (None, '.byte', ['3'], False),
     (None, '#endif', [], False), ('nop_x', 'nop', [], True)],
]


# programs in which two statements differ only in the letter case of a label or of a character literal (both case sensitive):
# each statement is assembled from its own text, however the other one is written
TWIN_PROGRAMS = [
    [('lab', None, [], False), (None, 'jmp', ['done'], True), (None, 'jmp', ['Done'], True), (None, 'ldi', [('reg', 'a'), "'A'"], True),
     (None, 'ldi', [('reg', 'a'), "'a'"], True), ('done', 'nop', [], True), ('Done', 'push', [('reg', 'a')], True), ('nop_x', 'nop', [], True)],
    [('lab', None, [], False), (None, 'ldi', [('reg', 'b'), 'kv'], True), (None, 'ldi', [('reg', 'b'), 'KV'], True), (None, 'brr', ['lab'], True),
     ('Lab', 'brr', ['Lab'], True), (None, '.byte', ["'q'", 'kv'], False), (None, '.byte', ["'Q'", 'KV'], False), ('nop_x', 'nop', [], True)],
]


def programs(tier):
    q = tier == 'quick'
    progs = [list(p) for p in SCOPE_PROGRAMS] + [list(p) for p in PREPROC_PROGRAMS] + [list(p) for p in TWIN_PROGRAMS]
    for s in CATALOGUE:
        progs.append(HEADER + [s] + FOOTER)
    pairs = list(itertools.product(CATALOGUE, repeat=2))
    for a, b in pairs:
        if a[0] and a[0] == b[0]:
            continue
        progs.append(HEADER + [a, b] + FOOTER)
    if not q:
        for a, b, c in itertools.product(CATALOGUE[:10], repeat=3):
            progs.append(HEADER + [a, b, c] + FOOTER)
    return progs


def meta(tier):
    q = tier == 'quick'
    return {
        'rule': 'base programs (plus programs about local regions, preprocessor lines, and statements that differ only in the letter case of a label or character literal): header + every single statement and every ordered pair (thorough: triples of the first 10) of a '
                '34-statement catalogue (incl. macro invocations, deferred operands) (every instruction form of the probe ISA, data lines, labelled statements, an #include, .org, .align and #define line, operands that look '
                'like mnemonics or registers: label nop_x, constant A1) + footer; rewrites: for each kind (mnemonic case, register case, '
                'token separator, comma spacing, bracket padding, indentation, blank lines, comments incl. ones containing a mnemonic '
                'and a quote, label on its own line, instructions joined on one line) and each variant of the kind, every subset of the '
                'sites (at most 2^6 per kind and variant; thorough: also every pair of kinds with all sites rewritten); plus the repository\'s example programs under their own definitions with blank lines / indentation / trailing whitespace / comments added to every (or every second) line of every file; oracle: '
                '(status, image) identical to the base rendering; non-trivial = rewritten text differs from the base text; '
                'states = distinct base programs',
        'bounds': {'catalogue': [str(s) for s in CATALOGUE], 'kinds': {k: [str(v) for v in vs] for k, vs in VARIANTS.items()},
                   'max_sites_per_kind': 6},
        'assumptions': ['only instructions are joined on one line (the statement says instructions); a comment is never followed by a joined instruction',
                        'zero whitespace is used only next to punctuation (commas, brackets, +)'],
        'floors': {'evaluations': 1000, 'nontrivial': 1000, 'statuses': ['OK'], 'clauses': list(VARIANTS)},
        'nshards': 64, 'xcheck': 24,
    }


def judge_same(spec, outs):
    a, b = outs
    if a.status != b.status:
        return f'base program: {a.status} ({a.detail}); rewritten ({spec.get("kind")}): {b.status} ({b.detail})'
    if a.image != b.image:
        return f'rewritten ({spec.get("kind")}) image {b.image.hex() if b.image else None} != base image {a.image.hex() if a.image else None}'
    return None


def _edit_lines(text, fn):
    return '\n'.join(fn(i, l) for i, l in enumerate(text.split('\n')))


CORPUS_EDITS = {
    # (clause, edit of one file's text); applied to every file of the program, or to every second line only
    'blank-line': lambda i, l, every: l + '\n' if (every or i % 2) else l,
    'indent': lambda i, l, every: ('\t' + l if l.strip() else l) if (every or i % 2) else l,
    'separator': lambda i, l, every: (l + ' \t ' if l.strip() else l) if (every or i % 2) else l,
    'comment': lambda i, l, every: (l + ' ; a note with nop in it' if (l.strip() and '"' not in l and "'" not in l) else l) if (every or i % 2) else l,
}


def corpus_rewrites(acc, idx, n, q):
    """The repository's example programs under their own definitions: blank lines, indentation, trailing whitespace and comments added
    to every line, or to every second line, of every source file leave the image as it was."""
    from mc import corpus
    for pi, prog in enumerate(corpus.programs()):
        if pi % n != idx or (q and pi % 2):
            continue
        base_case = corpus.case_for(prog)
        base = acc.run(base_case)
        acc.transition()
        if base.status != 'OK':
            acc.dc(f'example program {prog[0]} is not assembled by this tree')
            continue
        for kind, fn in CORPUS_EDITS.items():
            for every in (True, False):
                files = {name: _edit_lines(text, lambda i, l: fn(i, l, every)) for name, text in prog[3].items()}
                case = corpus.case_for(prog, files=files)
                out = acc.run(case)
                acc.transition()
                spec = {'type': 'same', 'kind': kind, 'program': prog[0], 'every_line': every}
                m = judge_same(spec, [base, out])
                if m:
                    acc.violation([base_case, case], spec, f'example program {prog[0]}: {m[:500]}', [base, out])
                acc.judge(clause=kind, nontrivial_distinct=True)


def shard(acc, tier, idx, n):
    q = tier == 'quick'
    corpus_rewrites(acc, idx, n, q)
    for pi, prog in enumerate(programs(tier)):
        if pi % n != idx:
            continue
        base_text = render(prog, {})
        base_case = Case(ISA, dict(FILES_EXTRA, **{'main.asm': base_text}))
        base = acc.run(base_case)
        acc.transition()
        acc.state(base_text)
        if base.status != 'OK':
            acc.dc('base program rejected (e.g. duplicate label)')
            continue
        seen = {base_text}

        def try_choice(kind, choice):
            text = render(prog, choice)
            if text in seen:
                return
            seen.add(text)
            case = Case(ISA, dict(FILES_EXTRA, **{'main.asm': text}))
            out = acc.run(case)
            acc.transition()
            spec = {'type': 'same', 'kind': kind}
            m = judge_same(spec, [base, out])
            if m:
                acc.violation([base_case, case], spec, m, [base, out])
            acc.judge(clause=kind.split('+')[0], nontrivial_distinct=True)
            if pi % 37 == 0 and len(seen) % 9 == 0:
                acc.sample({'kind': kind, 'base': base_text, 'rewritten': text, 'image': base.image.hex()})

        for kind, variants in VARIANTS.items():
            ss = sites(prog, kind)[:6]
            if q and kind == 'comment' and len(prog) > 4:
                variants = variants[::3]        # quick tier, programs of two catalogue statements: the plain comment and the one with both quote characters
            for v in variants:
                for r in range(1, len(ss) + 1):
                    for subset in itertools.combinations(ss, r):
                        try_choice(kind, {(kind, s): v for s in subset})
        if not q:
            for k1, k2 in itertools.combinations(VARIANTS, 2):
                for v1 in VARIANTS[k1]:
                    for v2 in VARIANTS[k2]:
                        ch = {(k1, s): v1 for s in sites(prog, k1)}
                        ch.update({(k2, s): v2 for s in sites(prog, k2)})
                        try_choice(f'{k1}+{k2}', ch)


def judge(spec, outcomes):
    return judge_same(spec, outcomes)
