"""Explorer core: sharded exhaustive enumeration, accumulation, CLI confirmation, evidence.

A property module (mc/props/cNN.py) provides

    ID, LEVEL                      - property id, evidence level
    meta(tier) -> dict             - bounds / rule / assumptions / floors for vacuity guards
    shard(acc, tier, idx, n)       - enumerate the (deterministic) space, take the slice idx mod n,
                                     execute the real code on it through acc.run(...) and judge
    judge(spec, outcomes) -> None | str
                                   - the oracle, on JSON-able `spec` and a list of Outcomes; used
                                     unchanged for in-process executions, for the confirmation of a
                                     candidate violation through the real CLI, and for --replay
    KNOWN (optional)               - {finding_id: predicate(spec, cases, outcomes) -> bool}

Exit codes of run_check: 0 property held on everything explored; 1 violation (after printing
`VIOLATION property=<id> replay=<path>`); 2 harness self-check failed (never a verdict).
"""
from __future__ import annotations

import collections
import hashlib
import importlib
import json
import multiprocessing as mp
import os
import random
import subprocess
import sys

if hasattr(sys, 'set_int_max_str_digits'):
    sys.set_int_max_str_digits(0)      # a wrong answer of the code under test may be a very large integer; reporting it must not fail
import time
import traceback

from . import world
from .world import Case, Outcome

VERIF = os.path.dirname(os.path.dirname(os.path.abspath(__file__)))
# (both can be redirected so that runs against a deliberately broken scratch tree do not touch the committed evidence)
EVIDENCE_DIR = os.environ.get('VERIF_EVIDENCE_DIR') or os.path.join(VERIF, 'evidence')
REPLAY_DIR = os.environ.get('VERIF_REPLAY_DIR') or os.path.join(VERIF, 'replays')
KNOWN_FILE = os.path.join(VERIF, 'known_findings.json')
MAX_VIOL = 20
NPROC = int(os.environ.get('VERIF_NPROC', '16'))


def h64(obj) -> int:
    if not isinstance(obj, (bytes, bytearray)):
        obj = repr(obj).encode()
    return int.from_bytes(hashlib.blake2b(obj, digest_size=8).digest(), 'big')


class Acc:
    """Accumulator of one shard; merged in the parent."""

    def __init__(self, seed=0, xk=0):
        self.seed = seed
        self.xk = xk                      # how many cross-check candidates to keep
        self.evaluations = 0
        self.judged = 0
        self.dont_care = 0
        self.transitions = 0
        self.states = set()
        self.nontrivial = set()
        self.nontrivial_n = 0             # distinct by construction (enumerated objects, never repeated)
        self.outcomes = collections.Counter()
        self.clauses = collections.Counter()
        self.violations = []
        self.nviol = 0
        self.known = collections.Counter()
        self.known_examples = {}
        self.samples = []
        self.caps = []
        self.xcand = []                   # (rank, case_json, outcome_key_json)
        self.extra = collections.Counter()
        self.timeout = 10.0

    # -- execution ------------------------------------------------------------------------------
    def run(self, case: Case, xcheck=True, tracer=None) -> Outcome:
        o = world.run_inproc(case, timeout=self.timeout, tracer=tracer)
        self.evaluations += 1
        self.outcomes[o.status] += 1
        if xcheck and self.xk:
            cj = case.to_json()
            rank = h64((self.seed, json.dumps(cj, sort_keys=True)))
            if len(self.xcand) < self.xk or rank < self.xcand[-1][0]:
                self.xcand.append((rank, cj, o.to_json()))
                self.xcand.sort(key=lambda t: t[0])
                del self.xcand[self.xk:]
        return o

    def count_eval(self, n=1, outcome=None):
        self.evaluations += n
        if outcome is not None:
            self.outcomes[outcome] += n

    # -- bookkeeping ----------------------------------------------------------------------------
    def state(self, key):
        self.states.add(h64(key))

    def transition(self, n=1):
        self.transitions += n

    def judge(self, nontrivial_key=None, clause=None, nontrivial_distinct=False):
        self.judged += 1
        if nontrivial_distinct:
            self.nontrivial_n += 1
        if nontrivial_key is not None:
            self.nontrivial.add(h64(nontrivial_key))
        if clause is not None:
            self.clauses[clause] += 1

    def dc(self, why=None):
        self.dont_care += 1
        if why:
            self.extra['dc:' + why] += 1

    def sample(self, obj, limit=3):
        if len(self.samples) < limit:
            self.samples.append(obj)

    def cap(self, what):
        if what not in self.caps:
            self.caps.append(what)

    def violation(self, cases, spec, msg, outcomes, finding=None, priority=0):
        """Registers a candidate violation (confirmed through the CLI in the parent).  Up to MAX_VIOL candidates are kept
        per priority level; lower levels are confirmed first (used for clauses a cross-run state leak cannot fake)."""
        self.nviol += 1
        # the cap is per (priority, attributed finding): candidates attributed to a known finding never crowd out others
        if sum(1 for v in self.violations if v.get('priority', 0) == priority and v.get('finding') == finding) < MAX_VIOL:
            self.violations.append({
                'priority': priority,
                'cases': [c.to_json() if isinstance(c, Case) else c for c in cases],
                'spec': spec, 'message': msg,
                'observed_inproc': [o.to_json() if isinstance(o, Outcome) else o for o in outcomes],
                'finding': finding,
            })

    def merge(self, o: 'Acc'):
        self.evaluations += o.evaluations
        self.judged += o.judged
        self.dont_care += o.dont_care
        self.transitions += o.transitions
        self.states |= o.states
        self.nontrivial |= o.nontrivial
        self.nontrivial_n += o.nontrivial_n
        self.outcomes.update(o.outcomes)
        self.clauses.update(o.clauses)
        self.known.update(o.known)
        self.extra.update(o.extra)
        for k, v in o.known_examples.items():
            self.known_examples.setdefault(k, v)
        self.nviol += o.nviol
        for v in o.violations:
            if sum(1 for w in self.violations if w.get('priority', 0) == v.get('priority', 0)
                   and w.get('finding') == v.get('finding')) < MAX_VIOL * 4:
                self.violations.append(v)
        for s in o.samples:
            if len(self.samples) < 3:
                self.samples.append(s)
        for c in o.caps:
            self.cap(c)
        self.xcand = sorted(self.xcand + o.xcand, key=lambda t: t[0])[:max(self.xk, o.xk)]


# ------------------------------------------------------------------------------------------------

def load_prop(pid):
    return importlib.import_module(f'mc.props.{pid.lower()}')


def load_known():
    if not os.path.exists(KNOWN_FILE):
        return {}
    with open(KNOWN_FILE) as f:
        data = json.load(f)
    return {e['id']: e for e in data.get('findings', [])}


def _shard_entry(args):
    pid, tier, idx, n, seed, xk = args
    try:
        mod = load_prop(pid)
        acc = Acc(seed, xk)
        mod.shard(acc, tier, idx, n)
        return acc
    except BaseException:
        return ('ERROR', traceback.format_exc())
    finally:
        world.drop_scratch()


def _cli_entry(args):
    cj, timeout = args
    o = world.run_cli(Case.from_json(cj), timeout=timeout)
    return o.to_json()


def _outcome_from_json(d):
    return Outcome(d['status'], d.get('detail'), None if d.get('image_hex') is None else bytes.fromhex(d['image_hex']),
                   d.get('pretty'))


def confirm_cli(mod, viol, pool=None, timeout=120.0):
    """Re-executes a candidate violation through the real CLI in fresh processes and re-judges."""
    if hasattr(mod, 'confirm'):
        return mod.confirm(viol)
    outs = [world.run_cli(Case.from_json(cj), timeout=timeout) for cj in viol['cases']]
    msg = mod.judge(viol['spec'], outs)
    return msg, outs


def run_check(pid, tier, seed, replay=None):
    t0 = time.time()
    mod = load_prop(pid)
    if replay:
        return run_replay(mod, replay)
    meta = mod.meta(tier)
    known = load_known()
    nshards = meta.get('nshards', NPROC * 4)
    xk = meta.get('xcheck', 24 if tier == 'quick' else 96)
    order = list(range(nshards))
    random.Random(seed).shuffle(order)
    ctx = mp.get_context('fork')
    total = Acc(seed, xk)
    errors = []
    with ctx.Pool(min(NPROC, nshards)) as pool:
        for r in pool.imap_unordered(_shard_entry, [(pid, tier, i, nshards, seed, xk) for i in order]):
            if isinstance(r, tuple):
                errors.append(r[1])
            else:
                total.merge(r)
        if errors:
            print(f'HARNESS-ERROR property={pid}: shard raised\n{errors[0]}')
            return 2
        # ---- binding to the real CLI: seeded subset replayed in fresh subprocesses ---------------
        xc = total.xcand[:xk]
        cli_out = pool.map(_cli_entry, [(cj, 120.0) for _, cj, _ in xc]) if xc else []
    diverged = []
    for (_, cj, oj), co in zip(xc, cli_out):
        a = (oj['status'], oj['image_hex'], oj['pretty'])
        b = (co['status'], co['image_hex'], co['pretty'])
        if a != b:
            diverged.append((cj, oj, co))
    # replay the same subset once more in this (different) process, in reverse order
    for _, cj, oj in reversed(xc[:8]):
        o = world.run_inproc(Case.from_json(cj))
        a = (oj['status'], oj['image_hex'], oj['pretty'])
        if (o.status, None if o.image is None else o.image.hex(), o.pretty) != a:
            diverged.append((cj, oj, o.to_json()))
    divergence_msg = None
    if diverged:
        os.makedirs(os.path.join(REPLAY_DIR, pid), exist_ok=True)
        p = os.path.join(REPLAY_DIR, pid, 'harness-divergence.json')
        with open(p, 'w') as f:
            json.dump([{'case': c, 'inproc': a, 'other': b} for c, a, b in diverged[:5]], f, indent=1)
        divergence_msg = (f'HARNESS-DIVERGENCE property={pid}: in-process and CLI executions disagree on {len(diverged)} '
                          f'cross-checked cases (see {p})')
        # In-process observations cannot be trusted in this run (state leaks between executions in one process).
        # Candidate violations are still taken through the real CLI below: a violation that a fresh CLI process
        # reproduces against the reference-computed expectation is genuine whatever the in-process runs saw.

    # ---- violations: confirm through the CLI, attribute to known findings ------------------------
    confirmed = []
    unconfirmed = 0
    known_hit = collections.OrderedDict()
    seen_payload = set()
    for v in sorted(total.violations, key=lambda w: w.get('priority', 0)):
        key = h64(json.dumps([v['cases'], v['spec']], sort_keys=True, default=str))
        if key in seen_payload:
            continue
        seen_payload.add(key)
        fid = v.get('finding')
        if fid and fid in known and known[fid].get('status') == 'known' and known[fid].get('property') == pid:
            known_hit.setdefault(fid, v)
            continue
        if len(confirmed) >= MAX_VIOL:
            continue
        msg, outs = confirm_cli(mod, v)
        if msg:
            v['message_cli'] = msg
            v['observed_cli'] = [o.to_json() if isinstance(o, Outcome) else o for o in outs]
            confirmed.append(v)
        else:
            unconfirmed += 1
    for fid, n in total.known.items():
        if fid in known and known[fid].get('status') == 'known' and known[fid].get('property') == pid:
            known_hit.setdefault(fid, total.known_examples.get(fid))
    for fid in known_hit:
        print(f'KNOWN-FINDING: property={pid} {fid}: {known[fid]["what"]}')

    # ---- vacuity guards -------------------------------------------------------------------------
    vac = []
    floors = meta.get('floors', {})
    if total.evaluations < floors.get('evaluations', 1):
        vac.append(f'evaluations {total.evaluations} < {floors.get("evaluations")}')
    if (len(total.nontrivial) + total.nontrivial_n) < floors.get('nontrivial', 2):
        vac.append(f'distinct_nontrivial {(len(total.nontrivial) + total.nontrivial_n)} < {floors.get("nontrivial", 2)}')
    for st in floors.get('statuses', ()):
        if total.outcomes.get(st, 0) == 0:
            vac.append(f'no execution ended with status {st}')
    for cl in floors.get('clauses', ()):
        if total.clauses.get(cl, 0) == 0:
            vac.append(f'no judged case for clause {cl!r}')

    wall = time.time() - t0
    level = mod.LEVEL
    cov = {
        'evaluations': total.evaluations,
        'distinct_nontrivial': (len(total.nontrivial) + total.nontrivial_n),
        'rule': meta.get('rule', ''),
        'samples': total.samples or [{'note': 'no sample recorded'}],
        'states': max(len(total.states), 1) if level == 'model_checking' else len(total.states),
        'transitions': max(total.transitions, 1) if level == 'model_checking' else total.transitions,
        'traces_validated_against_impl': total.transitions,
        'judged': total.judged,
        'dont_care': total.dont_care,
        'cli_cross_checked': len(xc),
        'distinct_outcomes': dict(total.outcomes),
        'clauses': dict(total.clauses),
        'bounds': meta.get('bounds', {}),
        'exhaustive': bool(meta.get('exhaustive', True)) and not total.caps,
        'caps_hit': total.caps,
        'known_findings_hit': list(known_hit),
        'candidate_violations': total.nviol,
        'violations_not_reproduced_by_cli': unconfirmed,
        'extra': dict(total.extra),
    }
    ev = {
        'property_id': pid, 'tier': tier, 'seed': seed, 'level': level, 'coverage': cov,
        'assumptions': meta.get('assumptions', []), 'wall_s': round(wall, 2), 'violations': len(confirmed),
    }
    os.makedirs(EVIDENCE_DIR, exist_ok=True)
    evp = os.path.join(EVIDENCE_DIR, f'{pid}.json')
    with open(evp, 'w') as f:
        json.dump(ev, f, indent=1, default=str)
    print(f'[{pid}] tier={tier} seed={seed} evaluations={total.evaluations} judged={total.judged} '
          f'dont_care={total.dont_care} states={len(total.states)} transitions={total.transitions} '
          f'nontrivial={(len(total.nontrivial) + total.nontrivial_n)} outcomes={dict(total.outcomes)} cli_xcheck={len(xc)} '
          f'known={list(known_hit)} wall={wall:.1f}s')
    if total.clauses:
        print(f'[{pid}] clauses: {dict(total.clauses)}')
    if total.caps:
        print(f'[{pid}] caps hit: {total.caps}')
    if confirmed:
        os.makedirs(os.path.join(REPLAY_DIR, pid), exist_ok=True)
        for v in confirmed:
            hid = '%016x' % h64(json.dumps([v['cases'], v['spec']], sort_keys=True, default=str))
            p = os.path.join(REPLAY_DIR, pid, f'{hid}.json')
            v['property'] = pid
            with open(p, 'w') as f:
                json.dump(v, f, indent=1, default=str)
            print(f'  {v.get("message_cli") or v["message"]}')
            print(f'VIOLATION property={pid} replay={p}')
        return 1
    if divergence_msg:
        print(divergence_msg + '; no verdict issued')
        return 2
    if unconfirmed:
        print(f'HARNESS-DIVERGENCE property={pid}: {unconfirmed} in-process disagreement(s) were not reproduced '
              f'by the real CLI; no verdict issued')
        return 2
    if vac and not os.environ.get('VERIF_NO_VACUITY'):
        print(f'HARNESS-VACUITY property={pid}: ' + '; '.join(vac))
        return 2
    return 0


def run_replay(mod, path):
    with open(path) as f:
        v = json.load(f)
    msg, outs = confirm_cli(mod, v)
    for cj, o in zip(v['cases'], outs):
        if isinstance(cj, dict) and 'files' in cj:
            for name, text in cj['files'].items():
                print(f'--- {name}')
                print(text)
            print('    options:', {k: cj[k] for k in ('start', 'end', 'fill', 'pretty', 'incdirs', 'defines') if cj.get(k)})
        print('    observed (real CLI):', o)
    print('spec:', json.dumps(v['spec'], default=str)[:2000])
    if msg:
        print('REPRODUCED:', msg)
        print(f'VIOLATION property={mod.ID} replay={path}')
        return 1
    print('NOT REPRODUCED on the current tree')
    return 0


def validate_evidence(pid):
    """Schema validation through the tooling venv (jsonschema is not in /venv)."""
    code = (
        'import json,sys,jsonschema;'
        's=json.load(open("/root/.vp/EVIDENCE.schema.json"));'
        f'e=json.load(open("{EVIDENCE_DIR}/{pid}.json"));'
        'jsonschema.validate(e,s);print("evidence valid")'
    )
    try:
        r = subprocess.run(['python3-vt', '-c', code], capture_output=True, text=True, timeout=60)
        return r.returncode == 0, (r.stdout + r.stderr).strip()
    except Exception as e:  # tooling not present: not a verdict
        return True, f'validator unavailable: {e}'
