"""Ownership of set iteration order (property C15).

`install()` puts a meta-path finder in front of the import system that loads every `bespokeasm`
module from the working tree through an AST rewrite: `set(...)` / `frozenset(...)` calls, set displays, set
comprehensions and the results of `-`, `|`, `&`, `^` that are plain sets build a `ChoiceSet`, a `set` subclass whose `__iter__` asks the scheduler for an
order.  Membership, length and algebra are unchanged.  Each iteration of a set that contains a
hash-randomised element (str / bytes / object) is a *choice point*:

    default order      = elements sorted by repr (a canonical order)
    alternative orders = all other permutations for k <= 4, otherwise reversal and every rotation

A schedule is {choice point index: alternative index}.  Executions are replayed from scratch.
"""
import ast
import builtins
import importlib.abc
import importlib.machinery
import itertools
import sys


class Scheduler:
    def __init__(self):
        self.reset({})

    def reset(self, schedule):
        self.schedule = dict(schedule)
        self.points = []          # (k, site) of every choice point met
        self.enabled = True

    def alternatives(self, k):
        if k <= 1:
            return 0
        if k <= 4:
            n = 1
            for i in range(2, k + 1):
                n *= i
            return n - 1
        return k                  # reversal + (k-1) rotations

    def order(self, items):
        if not self.enabled:
            return items
        k = len(items)
        idx = len(self.points)
        frame = sys._getframe(2)
        self.points.append((k, f'{frame.f_code.co_filename.rsplit("/", 1)[-1]}:{frame.f_lineno}'))
        alt = self.schedule.get(idx)
        if alt is None or k <= 1:
            return items
        if k <= 4:
            perms = list(itertools.permutations(items))
            return list(perms[1 + (alt % (len(perms) - 1))])
        if alt % k == 0:
            return list(reversed(items))
        r = alt % k
        return items[r:] + items[:r]


SCHED = Scheduler()


def _randomised(x):
    return not isinstance(x, (int, float, bool, type(None)))


class ChoiceSet(set):
    __slots__ = ()

    def __iter__(self):
        items = list(set.__iter__(self))
        if len(items) > 1 and any(_randomised(x) for x in items):
            try:
                items.sort(key=repr)
            except Exception:
                pass
            items = SCHED.order(items)
        return iter(items)

    def _wrap(self, s):
        return ChoiceSet(s) if type(s) is set else s

    def union(self, *o):
        return self._wrap(set.union(self, *o))

    def intersection(self, *o):
        return self._wrap(set.intersection(self, *o))

    def difference(self, *o):
        return self._wrap(set.difference(self, *o))

    def symmetric_difference(self, o):
        return self._wrap(set.symmetric_difference(self, o))

    def copy(self):
        return ChoiceSet(set.copy(self))

    def __or__(self, o):
        return self._wrap(set.__or__(self, o))

    def __and__(self, o):
        return self._wrap(set.__and__(self, o))

    def __sub__(self, o):
        return self._wrap(set.__sub__(self, o))

    def __xor__(self, o):
        return self._wrap(set.__xor__(self, o))

    __ror__ = __or__
    __rand__ = __and__

    def __reduce__(self):
        return (ChoiceSet, (list(set.__iter__(self)),))


class ChoiceFrozenSet(frozenset):
    __slots__ = ()

    def __iter__(self):
        items = list(frozenset.__iter__(self))
        if len(items) > 1 and any(_randomised(x) for x in items):
            try:
                items.sort(key=repr)
            except Exception:
                pass
            items = SCHED.order(items)
        return iter(items)


def _wrapset(x):
    t = type(x)
    if t is set:
        return ChoiceSet(x)
    if t is frozenset:
        return ChoiceFrozenSet(x)
    return x


class _Rewriter(ast.NodeTransformer):
    def visit_Call(self, node):
        self.generic_visit(node)
        if isinstance(node.func, ast.Name) and node.func.id == 'set':
            node.func = ast.Name(id='verif_ChoiceSet_', ctx=ast.Load())
        elif isinstance(node.func, ast.Name) and node.func.id == 'frozenset':
            node.func = ast.Name(id='verif_ChoiceFrozenSet_', ctx=ast.Load())
        return node

    def visit_BinOp(self, node):
        # a set can also come out of an operator whose left operand is not one of ours (dict.keys() - other, set algebra on a set
        # returned by a library): wrap the result if - and only if - it is a plain set / frozenset
        self.generic_visit(node)
        if isinstance(node.op, (ast.Sub, ast.BitOr, ast.BitAnd, ast.BitXor)):
            return ast.Call(func=ast.Name(id='verif_wrapset_', ctx=ast.Load()), args=[node], keywords=[])
        return node

    def visit_Set(self, node):
        self.generic_visit(node)
        return ast.Call(func=ast.Name(id='verif_ChoiceSet_', ctx=ast.Load()),
                        args=[ast.List(elts=node.elts, ctx=ast.Load())], keywords=[])

    def visit_SetComp(self, node):
        self.generic_visit(node)
        return ast.Call(func=ast.Name(id='verif_ChoiceSet_', ctx=ast.Load()),
                        args=[ast.ListComp(elt=node.elt, generators=node.generators)], keywords=[])


class _Loader(importlib.machinery.SourceFileLoader):
    def get_code(self, fullname):
        path = self.get_filename(fullname)
        data = self.get_data(path)
        tree = ast.parse(data, path)
        tree = _Rewriter().visit(tree)
        ast.fix_missing_locations(tree)
        return compile(tree, path, 'exec', dont_inherit=True)


class _Finder(importlib.abc.MetaPathFinder):
    def find_spec(self, fullname, path, target=None):
        if fullname != 'bespokeasm' and not fullname.startswith('bespokeasm.'):
            return None
        spec = importlib.machinery.PathFinder.find_spec(fullname, path)
        if spec is not None and spec.origin and spec.origin.endswith('.py'):
            spec.loader = _Loader(fullname, spec.origin)
        return spec


_installed = False


def install():
    """Must run before bespokeasm is imported in this process."""
    global _installed
    if _installed:
        return
    if any(m == 'bespokeasm' or m.startswith('bespokeasm.') for m in sys.modules):
        raise RuntimeError('bespokeasm was imported before the set-order hook was installed')
    builtins.verif_ChoiceSet_ = ChoiceSet
    builtins.verif_ChoiceFrozenSet_ = ChoiceFrozenSet
    builtins.verif_wrapset_ = _wrapset
    sys.meta_path.insert(0, _Finder())
    _installed = True
