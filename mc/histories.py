"""Helpers shared by the refasm-based history explorations."""
from mc import refasm as R
from mc.judges import expect_spec, judge_expect
from mc.world import Case


_OPT = [0]


def isa_for(params, base_isa_fn):
    return base_isa_fn(address_size=params.address_size, endian=params.endian, origin=params.origin or None,
                       page_size=params.page_size if params.page_size != 1 else None,
                       zones=params.zones or None, data=params.data or None, constants=params.constants or None,
                       symbols=params.symbols or None)


def run_program(acc, params, isa, files, main='main.asm', incdirs=(), start=0, end=None, fill=0,
                clause=None, nontrivial=None, defect_table=(), tag=None, defines=(), sample=True, priority=0):
    """Assembles `files` with the real code and with the reference; judges; returns (ref, out, msg)."""
    ref = R.assemble(params, files, main, incdirs)
    case = Case(isa, R.render_files(files), main=main, incdirs=incdirs, start=start, end=end, fill=fill,
                defines=defines, tag=tag)
    out = acc.run(case)
    acc.transition()
    if ref.status == 'DC':
        acc.dc(ref.reason)
        return ref, out, None
    spec = expect_spec(ref, start, end, fill)
    msg = judge_expect(spec, [out])
    if msg:
        finding = None
        for fid, defects in defect_table:
            alt = R.assemble(params, files, main, incdirs, defects=defects)
            if alt.status != 'DC' and judge_expect(expect_spec(alt, start, end, fill), [out]) is None:
                finding = fid
                break
        acc.violation([case], spec, msg, [out], finding=finding, priority=priority)
    if ref.status == 'REJECT' and not msg:
        # a program that must be rejected is rejected whatever outputs are requested: every fifth rejected program is run once more
        # with other output options (nothing written at all / a listing only / an image window), judged on its status
        _OPT[0] += 1
        if _OPT[0] % 5 == 0:
            mode = _OPT[0] // 5 % 4
            kw = [{'binary': False}, {'binary': False, 'pretty': 'listing'}, {'start': 0x7000}, {'verbose': 3}][mode]
            case2 = Case(isa, R.render_files(files), main=main, incdirs=incdirs, defines=defines, tag=tag, **kw)
            out2 = acc.run(case2)
            acc.transition()
            spec2 = dict(spec, status_only=True, mode=['--no-binary', '--no-binary -p -t listing', '-s 28672', '-vvv'][mode])
            msg2 = judge_expect(spec2, [out2])
            if msg2:
                acc.violation([case2], spec2, f'[{spec2["mode"]}] {msg2}', [out2], priority=priority)
    if ref.status == 'OK' and not msg and fill == 0:
        # an assembled byte is the same byte whatever value pads the unassembled addresses: every ninth accepted program is built
        # once more with another fill value and judged against the same reference
        import zlib
        pick = zlib.crc32(repr(sorted(case.files.items())).encode('utf-8', 'surrogateescape'))     # the same programs on every run
        if pick % 9 == 0:
            f2 = (0xFF, 0x3C)[pick // 9 % 2]
            case3 = Case(isa, R.render_files(files), main=main, incdirs=incdirs, start=start, end=end, fill=f2, defines=defines, tag=tag)
            out3 = acc.run(case3)
            acc.transition()
            spec3 = expect_spec(ref, start, end, f2)
            msg3 = judge_expect(spec3, [out3])
            if msg3:
                acc.violation([case3], spec3, f'[-f {f2}] {msg3}', [out3], priority=priority)
    cl = clause(ref) if callable(clause) else clause
    if cl is None:
        cl = 'accepted' if ref.status == 'OK' else 'rejected'
    nt = nontrivial(ref) if callable(nontrivial) else nontrivial
    acc.judge(clause=cl, nontrivial_key=nt)
    if sample:
        acc.sample({'program': {k: R.render(v) for k, v in files.items()}, 'options': {'start': start, 'end': end, 'fill': fill},
                    'reference': spec})
    return ref, out, msg


def histories(alphabet, depth, idx, n, prefix_ok=None):
    """Depth-first enumeration of all sequences over `alphabet` up to `depth`; the subtrees under the
    first two symbols are dealt round-robin to the shards; histories of length < 2 belong to shard 0.
    prefix_ok(history) -> False prunes the subtree below `history` (the history itself is still yielded)."""
    k = len(alphabet)
    if idx == 0:
        yield ()
        if depth >= 1:
            for a in alphabet:
                yield (a,)

    def rec(h):
        yield h
        if len(h) >= depth:
            return
        if prefix_ok is not None and not prefix_ok(h):
            return
        for s in alphabet:
            yield from rec(h + (s,))

    if depth >= 2:
        for i in range(k * k):
            if i % n != idx:
                continue
            a, b = alphabet[i // k], alphabet[i % k]
            if prefix_ok is not None and not prefix_ok((a,)):
                continue
            yield from rec((a, b))
