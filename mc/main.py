import argparse
import os
import sys

sys.path.insert(0, os.path.dirname(os.path.dirname(os.path.abspath(__file__))))


def main():
    ap = argparse.ArgumentParser()
    ap.add_argument('id')
    ap.add_argument('--tier', default=os.environ.get('VERIF_TIER', 'quick'), choices=['quick', 'thorough'])
    ap.add_argument('--replay')
    ap.add_argument('--seed', type=int, default=int(os.environ.get('VERIF_SEED', '0') or 0))
    a = ap.parse_args()
    from mc import explore
    rc = explore.run_check(a.id.upper(), a.tier, a.seed, a.replay)
    if not a.replay and rc in (0, 1):
        ok, msg = explore.validate_evidence(a.id.upper())
        if not ok:
            print(f'HARNESS-ERROR evidence file does not validate: {msg}')
            rc = 2 if rc == 0 else rc
    sys.exit(rc)


if __name__ == '__main__':
    main()
