"""isagen - generated ISA definitions with, for every operand shape, the operand texts and the
fields (code / argument) the statement must be encoded with.  Everything is known by construction;
nothing is parsed back.

An operand *shape* is a dict:
    cfg(default_endian) -> operand configuration (ISA definition fragment)
    insts: list of instances (text, code, arg)  where
        code = None | (value, width)                     operand codes are always big-endian, unaligned
        arg  = None | (value | callable(addr, isize) -> value, width)
    pos: 'prefix' | 'suffix'  (position of the code)
    align, endian: byte_align flag and endianness (None = inherit) of the argument
    needs: set of tags ('yaml' when integer dictionary keys are required, 'addr' when address dependent)
"""
import copy

REGISTERS = ['a', 'b', 'sp', 'x']


def values_for(width, signed=True):
    """Boundary and pattern values of a `width`-bit field (all values when width <= 4)."""
    if width <= 4:
        vals = list(range(0, 1 << width))
        if signed:
            vals += list(range(-(1 << (width - 1)), 0))
        return vals
    vals = [0, 1, (1 << (width - 1)) - 1, 1 << (width - 1), (1 << width) - 1, 0xA5A5A5A5A5A5A5A5 & ((1 << width) - 1),
            0x5A5A5A5A5A5A5A5A & ((1 << width) - 1)]
    if width >= 9:
        vals.append(0x0102030405060708 & ((1 << width) - 1))
    if signed:
        vals += [-1, -(1 << (width - 1)), -2]
    out = []
    for v in vals:
        if v not in out:
            out.append(v)
    return out


def lit(v):
    return str(v) if v >= 0 else f'-{-v}'


def _argcfg(width, align, endian, extra=None):
    c = {'size': width, 'byte_align': align}
    if endian is not None:
        c['endian'] = endian
    if extra:
        c.update(extra)
    return c


def _codecfg(code, pos):
    if code is None:
        return None
    c = {'value': code[0], 'size': code[1]}
    if pos == 'prefix':
        c['position'] = 'prefix'
    return c


DECORATORS = {'plus': '+', 'plus_plus': '++', 'minus': '-', 'minus_minus': '--', 'exclamation': '!', 'at': '@'}


def shape_register(reg, code, pos='suffix', decorator=None):
    """decorator: None | (type, is_prefix)"""
    def cfg(de):
        c = {'type': 'register', 'register': reg}
        if code is not None:
            c['bytecode'] = _codecfg(code, pos)
        if decorator is not None:
            c['decorator'] = {'type': decorator[0], 'is_prefix': decorator[1]}
        return c
    text = reg
    if decorator is not None:
        text = DECORATORS[decorator[0]] + reg if decorator[1] else reg + DECORATORS[decorator[0]]
    return {'kind': 'register', 'cfg': cfg, 'pos': pos, 'align': False, 'endian': None,
            'insts': [(text, code, None)], 'needs': set()}


def shape_numeric(width, align=True, endian=None, code=None, pos='suffix', wrap='{}', typ='numeric', nvals=None):
    def cfg(de):
        c = {'type': typ, 'argument': _argcfg(width, align, endian)}
        if code is not None:
            c['bytecode'] = _codecfg(code, pos)
        return c
    vals = values_for(width)
    if nvals:
        vals = vals[:nvals]
    insts = [(wrap.format(lit(v)), code, (v, width)) for v in vals]
    cname, cval = ('KV7', 7) if width >= 4 else ('KV1', 1)
    insts.append((wrap.format(cname), code, (cval, width)))
    return {'kind': typ, 'cfg': cfg, 'pos': pos, 'align': align, 'endian': endian, 'insts': insts, 'needs': set(),
            'consts': {cname: cval}}


def shape_indirect_register(reg, code, pos='suffix', offset=None, align=True, endian=None, decorator=None):
    def cfg(de):
        c = {'type': 'indirect_register', 'register': reg}
        if decorator is not None:
            c['decorator'] = {'type': decorator[0], 'is_prefix': decorator[1]}
        if code is not None:
            c['bytecode'] = _codecfg(code, pos)
        if offset is not None:
            c['offset'] = _argcfg(offset, align, endian)
        return c
    if offset is None:
        insts = [(f'[{reg}]', code, None)]
    else:
        insts = [(f'[{reg}]', code, (0, offset)), (f'[{reg}+1]', code, (1, offset)), (f'[ {reg} + 2 ]', code, (2, offset)),
                 (f'[{reg}-1]', code, (-1, offset)), (f'[{reg}+{(1 << (offset - 1)) - 1}]', code, ((1 << (offset - 1)) - 1, offset)),
                 # an offset is an expression: [r - 4 - 1] is r-5, [r - 2 + 1] is r-1, [r + 2*3 - 1] is r+5
                 (f'[{reg} - 4 - 1]', code, (-5, offset)), (f'[{reg}-2+1]', code, (-1, offset)), (f'[{reg} + 2*3 - 1]', code, (5, offset)),
                 (f'[{reg} - (1+2)]', code, (-3, offset))]
    if decorator is not None:
        d = DECORATORS[decorator[0]]
        insts = [((d + t if decorator[1] else t + d), c, a) for t, c, a in insts]
    return {'kind': 'indirect_register', 'cfg': cfg, 'pos': pos, 'align': align, 'endian': endian, 'insts': insts, 'needs': set()}


def shape_indexed(reg, code, idx_width, pos='suffix', align=True, endian=None, indirect=False, idx_code=None, reg_index=None,
                  decorator=None):
    """reg + <numeric index>  (or reg + <register index> with a composite code); decorator only for the indirect form"""
    typ = 'indirect_indexed_register' if indirect else 'indexed_register'

    def cfg(de):
        c = {'type': typ, 'register': reg, 'bytecode': _codecfg(code, pos), 'index_operands': {}}
        if decorator is not None:
            c['decorator'] = {'type': decorator[0], 'is_prefix': decorator[1]}
        if reg_index is None:
            ic = {'type': 'numeric', 'argument': _argcfg(idx_width, align, endian)}
            if idx_code is not None:
                ic['bytecode'] = {'value': idx_code[0], 'size': idx_code[1]}
            c['index_operands']['idx'] = ic
        else:
            c['index_operands']['ridx'] = {'type': 'register', 'register': reg_index[0],
                                           'bytecode': {'value': reg_index[1], 'size': reg_index[2]}}
        return c
    fmt = '[{}+{}]' if indirect else '{}+{}'
    fmt2 = '[ {} + {} ]' if indirect else '{} + {}'
    insts = []
    if reg_index is None:
        full_code = code
        if idx_code is not None:
            full_code = ((code[0] << idx_code[1]) | idx_code[0], code[1] + idx_code[1])
        for i, v in enumerate([0, 1, (1 << (idx_width - 1)) - 1, (1 << idx_width) - 1]):
            insts.append(((fmt if i % 2 == 0 else fmt2).format(reg, lit(v)), full_code, (v, idx_width)))
    else:
        full_code = ((code[0] << reg_index[2]) | reg_index[1], code[1] + reg_index[2])
        insts.append((fmt.format(reg, reg_index[0]), full_code, None))
        insts.append((fmt2.format(reg, reg_index[0]), full_code, None))
    if decorator is not None:
        d = DECORATORS[decorator[0]]
        insts = [((d + t if decorator[1] else t + d), c, a) for t, c, a in insts]
    return {'kind': typ, 'cfg': cfg, 'pos': pos, 'align': align, 'endian': endian, 'insts': insts, 'needs': set()}


def shape_indexed_nbc(reg, code, idx_width, pos='suffix', indirect=False):
    """reg + <numeric_bytecode index with a signed range>: the index value becomes part of a composite code"""
    typ = 'indirect_indexed_register' if indirect else 'indexed_register'
    lo, hi = -(1 << (idx_width - 1)), (1 << (idx_width - 1)) - 1

    def cfg(de):
        return {'type': typ, 'register': reg, 'bytecode': _codecfg(code, pos),
                'index_operands': {'nb': {'type': 'numeric_bytecode', 'bytecode': {'size': idx_width, 'min': lo, 'max': hi}}}}
    fmt = '[{}+{}]' if indirect else '{} + {}'
    consts = {}
    insts = []
    for v in sorted({lo, -1, 0, 1, hi}):
        name = f'KI{idx_width}_{"m" if v < 0 else "p"}{abs(v)}'
        consts[name] = v
        full = ((code[0] << idx_width) | (v % (1 << idx_width)), code[1] + idx_width)
        insts.append((fmt.format(reg, name), full, None))
        if v >= 0:
            insts.append((fmt.format(reg, v), full, None))
    return {'kind': typ, 'cfg': cfg, 'pos': pos, 'align': False, 'endian': None, 'insts': insts, 'needs': set(), 'consts': consts}


def shape_enumeration(code_width, arg_width, pos='suffix', align=True, endian=None):
    keys = {'foo': (1, 2), 'bar': (2, 5), 'baz_1': (3, 0), 'zed': (0, 9)}      # (code, argument); zero values included on purpose

    def cfg(de):
        c = {'type': 'enumeration'}
        if code_width:
            c['bytecode'] = {'size': code_width, 'value_dict': {k: v[0] for k, v in keys.items()}}
            if pos == 'prefix':
                c['bytecode']['position'] = 'prefix'
        c['argument'] = _argcfg(arg_width or 8, align, endian, {'value_dict': {k: v[1] for k, v in keys.items()}})
        return c
    insts = []
    for k, (cv, av) in keys.items():
        insts.append((k, (cv, code_width) if code_width else None, (av, arg_width or 8)))
    return {'kind': 'enumeration', 'cfg': cfg, 'pos': pos, 'align': align, 'endian': endian, 'insts': insts, 'needs': set()}


def shape_numeric_enumeration(code_width, arg_width, pos='suffix', align=True, endian=None):
    table = {0: (1, 9), 3: (2, 1), 5: (0, 6)}

    def cfg(de):
        c = {'type': 'numeric_enumeration'}
        if code_width:
            c['bytecode'] = {'size': code_width, 'value_dict': {k: v[0] for k, v in table.items()}}
            if pos == 'prefix':
                c['bytecode']['position'] = 'prefix'
        if arg_width:
            c['argument'] = _argcfg(arg_width, align, endian, {'value_dict': {k: v[1] for k, v in table.items()}})
        return c
    insts = []
    for k, (cv, av) in table.items():
        for text in (lit(k), f'{k}+0', 'KV3' if k == 3 else lit(k)):
            insts.append((text, (cv, code_width) if code_width else None, (av, arg_width) if arg_width else None))
    return {'kind': 'numeric_enumeration', 'cfg': cfg, 'pos': pos, 'align': align, 'endian': endian, 'insts': insts,
            'needs': {'yaml'}, 'consts': {'KV3': 3}}


def shape_numeric_bytecode(width, pos='suffix'):
    def cfg(de):
        c = {'type': 'numeric_bytecode', 'bytecode': {'size': width, 'min': 0, 'max': (1 << width) - 1}}
        if pos == 'prefix':
            c['bytecode']['position'] = 'prefix'
        return c
    insts = [(lit(v), (v, width), None) for v in values_for(width, signed=False)]
    return {'kind': 'numeric_bytecode', 'cfg': cfg, 'pos': pos, 'align': False, 'endian': None, 'insts': insts, 'needs': set()}


def shape_address(width, align=True, endian=None, sliced=False, addr_bits=16):
    def cfg(de):
        extra = {'slice_lsb': True, 'match_address_msb': True} if sliced else None
        return {'type': 'address', 'argument': _argcfg(width, align, endian, extra)}
    insts = []
    if sliced:
        mask = (1 << width) - 1
        for low in (0, 1, mask, mask >> 1):
            insts.append((('page', low), None, (low, width)))     # text built from the instruction address
    else:
        top = min((1 << width) - 1, (1 << addr_bits) - 1)
        for v in (0, 1, top, top >> 1, 0x1234 & top):
            insts.append((lit(v), None, (v, width)))
        insts.append(('KV7', None, (7, width)))
    return {'kind': 'address', 'cfg': cfg, 'pos': 'suffix', 'align': align, 'endian': endian, 'insts': insts,
            'needs': {'addr'} if sliced else set(), 'consts': {'KV7': 7}, 'sliced': width if sliced else None}


def shape_relative(width, align=True, endian=None, from_end=False, curly=False):
    lo, hi = -(1 << (width - 1)), (1 << (width - 1)) - 1

    def cfg(de):
        c = {'type': 'relative_address', 'argument': _argcfg(width, align, endian, {'min': lo, 'max': hi})}
        if from_end:
            c['offset_from_instruction_end'] = True
        if curly:
            c['use_curly_braces'] = True
        return c
    insts = []
    for off in (0, 1, 2, min(hi, 100), -1, max(lo, -100)):
        insts.append((('rel', off, from_end, curly), None, (off, width)))
    return {'kind': 'relative_address', 'cfg': cfg, 'pos': 'suffix', 'align': align, 'endian': endian, 'insts': insts,
            'needs': {'addr'}}


def shape_empty(code, pos='suffix'):
    def cfg(de):
        return {'type': 'empty', 'bytecode': _codecfg(code, pos)}
    return {'kind': 'empty', 'cfg': cfg, 'pos': pos, 'align': False, 'endian': None, 'insts': [('', code, None)],
            'needs': {'specific'}}


def operand_text(inst_text, addr, isize):
    """Resolves address-dependent operand texts (target chosen relative to the statement's own address)."""
    if isinstance(inst_text, tuple):
        if inst_text[0] == 'rel':
            _, off, from_end, curly = inst_text
            target = addr + off + ((isize - 1) if from_end else 0)
            t = lit(target)
            return '{' + t + '}' if curly else t
        if inst_text[0] == 'page':
            return None      # needs the slice width: resolved by the caller
    return inst_text


# ------------------------------------------------------------------------------------------------

class InstrSpec:
    """One generated instruction (single variant, single operand alternative per slot)."""

    def __init__(self, mnemonic, opcode, opcode_endian=None, suffix=None, shapes=(), reverse_args=False,
                 reverse_codes=False, route='sets'):
        self.mnemonic = mnemonic
        self.opcode = opcode            # (value, width)
        self.opcode_endian = opcode_endian
        self.suffix = suffix            # None | (value, width)
        self.shapes = list(shapes)
        self.reverse_args = reverse_args
        self.reverse_codes = reverse_codes
        self.route = route              # 'sets' | 'specific'

    def needs(self):
        s = set()
        for sh in self.shapes:
            s |= sh['needs']
        return s

    def config(self, default_endian, opsets):
        bc = {'value': self.opcode[0], 'size': self.opcode[1]}
        if self.opcode_endian is not None:
            bc['endian'] = self.opcode_endian
        if self.suffix is not None:
            bc['suffix'] = {'value': self.suffix[0], 'size': self.suffix[1]}
        c = {'bytecode': bc}
        if self.shapes:
            ops = {'count': len(self.shapes)}
            if self.route == 'sets':
                names = []
                for i, sh in enumerate(self.shapes):
                    name = f'{self.mnemonic}_s{i}'
                    opsets[name] = {'operand_values': {f'o{i}': sh['cfg'](default_endian)}}
                    names.append(name)
                ops['operand_sets'] = {'list': names}
                if self.reverse_args:
                    ops['operand_sets']['reverse_argument_order'] = True
                if self.reverse_codes:
                    ops['operand_sets']['reverse_bytecode_order'] = True
            else:
                lst = {f'o{i}': sh['cfg'](default_endian) for i, sh in enumerate(self.shapes)}
                spec = {'list': lst}
                if self.reverse_args:
                    spec['reverse_argument_order'] = True
                if self.reverse_codes:
                    spec['reverse_bytecode_order'] = True
                ops['specific_operands'] = {'only': spec}
            c['operands'] = ops
        elif self.route == 'count0':
            c['operands'] = {'count': 0}          # operand-less, said explicitly
        return c

    def fields(self, default_endian, combo, addr):
        """combo: one instance per shape -> (ordered field list, operand texts)"""
        from mc import refenc
        oe = self.opcode_endian or default_endian
        opcode = (self.opcode[0], self.opcode[1], False, oe)
        suffix = None if self.suffix is None else (self.suffix[0], self.suffix[1], False, oe)
        # first pass with placeholder values to learn the size (sizes never depend on values)
        ops = []
        for sh, inst in zip(self.shapes, combo):
            text, code, arg = inst
            d = {}
            if code is not None:
                d['code'] = ((code[0], code[1], False, 'big'), sh['pos'])
            if arg is not None:
                d['arg'] = (arg[0], arg[1], sh['align'], sh['endian'] or default_endian)
            ops.append(d)
        ordered = refenc.order_fields(opcode, suffix, ops, self.reverse_codes, self.reverse_args)
        isize = refenc.size_of(ordered)
        texts = []
        for sh, inst in zip(self.shapes, combo):
            text = inst[0]
            if isinstance(text, tuple) and text[0] == 'page':
                w = sh['sliced']
                text = lit(((addr >> w) << w) | text[1])
            else:
                text = operand_text(text, addr, isize)
            if text != '' or sh['kind'] != 'empty':
                texts.append(text)
        return ordered, isize, texts


def build_isa(instrs, default_endian='big', address_size=16, registers=REGISTERS, extra_general=None, predefined=None):
    opsets = {}
    instructions = {}
    for ins in instrs:
        instructions[ins.mnemonic] = ins.config(default_endian, opsets)
    general = {'address_size': address_size, 'endian': default_endian, 'registers': list(registers), 'min_version': '0.3.0'}
    if extra_general:
        general.update(extra_general)
    isa = {'description': 'generated', 'general': general, 'operand_sets': opsets or {'unused': {'operand_values': {
        'u': {'type': 'numeric', 'argument': {'size': 8, 'byte_align': True}}}}}, 'instructions': instructions}
    if predefined:
        isa['predefined'] = copy.deepcopy(predefined)
    return isa
