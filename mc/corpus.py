"""The repository's own example programs and instruction-set definitions (examples/), used by several checks as a corpus of
real-world inputs for relations that need no reference model (a window is a slice of the whole image, every format decodes to the
image, the same bytes whatever the hash seed, the same bytes after an edit that carries no meaning).

Nothing here is an oracle: a corpus program that the tree under test does not assemble is skipped by the caller (counted as a
don't-care), never reported.
"""
import glob
import os

from mc.world import Case, REPO

EXAMPLES = os.path.join(REPO, 'examples')

# (directory, definition file, glob of main programs)
SETS = [
    ('ben-eater-sap1', 'eater-sap1-isa.yaml', '*.sap1'),
    ('kenbak-1', 'kenbak-1-isa.yaml', '*.kb1'),
    ('slu4-minimal-cpu', 'slu4-minimal-cpu.yaml', '*.min-asm'),
    ('slu4-minimal-64', 'slu4-minimal-64.yaml', 'software/*.min64'),
    ('slu4-minimal-64x4', 'slu4-minimal-64x4.yaml', 'software/*.min64x4'),
]


def _read(path):
    with open(path, encoding='utf-8', errors='surrogateescape') as f:
        return f.read()


def programs(small_only=False):
    """-> list of (name, isa_text, isa_file_name, files {relative name: text}, main) ; files holds every source of the program's
    directory so that its includes resolve."""
    out = []
    for d, isa, pattern in SETS:
        base = os.path.join(EXAMPLES, d)
        isa_path = os.path.join(base, isa)
        if not os.path.isfile(isa_path):
            continue
        mains = sorted(glob.glob(os.path.join(base, pattern)))
        if not mains:
            continue
        srcdir = os.path.dirname(mains[0])
        ext = os.path.splitext(mains[0])[1]
        files = {os.path.basename(p): _read(p) for p in sorted(glob.glob(os.path.join(srcdir, '*' + ext)))}
        try:
            isa_text = _read(isa_path)
        except OSError:
            continue
        for m in mains:
            if small_only and len(files[os.path.basename(m)]) > 6000:
                continue
            out.append((f'{d}/{os.path.basename(m)}', isa_text, isa, files, os.path.basename(m)))
    return out


def case_for(prog, files=None, **kw):
    name, isa_text, isa_file, pfiles, main = prog
    return Case(isa_text, dict(files if files is not None else pfiles), main=main, isa_file=isa_file, **kw)
