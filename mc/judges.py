"""Oracles shared by the refasm-based checks; work on JSON-able specs and Outcome lists so the same
function judges in-process executions, CLI confirmations and --replay."""


def expect_spec(ref_result, start=0, end=None, fill=0):
    """Builds the spec for one run from a refasm Result (status OK / REJECT)."""
    if ref_result.status == 'REJECT':
        return {'expect': 'REJECT', 'why': ref_result.reason}
    return {'expect': 'OK', 'image_hex': ref_result.image(start, end, fill).hex()}


def judge_expect(spec, outcomes):
    o = outcomes[0]
    if spec['expect'] == 'REJECT':
        if o.status == 'OK':
            return f'expected rejection ({spec.get("why", "")}) but assembly succeeded, image={o.image.hex() if o.image is not None else None}'
        if o.status == 'HANG':
            return 'assembly did not terminate'
        return None
    if o.status != 'OK':
        return f'expected success with image {spec["image_hex"]} but got {o.status}: {o.detail}'
    if spec.get('status_only'):
        return None             # run without a binary image (--no-binary): only acceptance is judged
    got = o.image.hex() if o.image is not None else None
    if got != spec['image_hex']:
        return f'image differs: expected {spec["image_hex"]} got {got}'
    return None
