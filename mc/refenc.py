"""refenc - reference instruction encoder over bit *strings* (property C01, also used by C10/C12/C13).

A field is (value, width, byte_align, endian).  Nothing here uses int.to_bytes or shares arithmetic
with bespokeasm's PackedBits.
"""


class Overflow(Exception):
    pass


def fits(value, width):
    """signed-or-unsigned range of a `width`-bit field"""
    return -(1 << (width - 1)) <= value <= (1 << width) - 1 if width > 0 else value == 0


def field_bits(value, width, endian):
    """bit string of one field.  big: the width bits MSB first.  little: the width-bit two's
    complement cut into bytes from the least significant end, low byte first, the final (most
    significant) chunk carrying width mod 8 (or 8) bits."""
    if width == 0:
        return ''
    if not fits(value, width):
        raise Overflow(f'{value} does not fit {width} bits')
    v = value % (1 << width)
    msb_first = ''.join('1' if (v >> i) & 1 else '0' for i in range(width - 1, -1, -1))
    if endian == 'big':
        return msb_first
    # little: split from the least significant end into 8-bit chunks
    chunks = []
    rest = msb_first
    while rest:
        chunks.append(rest[-8:])
        rest = rest[:-8]
    return ''.join(chunks)


def encode(fields):
    """fields: list of (value, width, byte_align, endian) in emission order -> bytes"""
    bits = ''
    for value, width, align, endian in fields:
        if align and len(bits) % 8:
            bits += '0' * (8 - len(bits) % 8)
        bits += field_bits(value, width, endian)
    if len(bits) % 8:
        bits += '0' * (8 - len(bits) % 8)
    if bits == '':
        bits = '0' * 8      # an instruction of zero bits still occupies its (empty) first byte in the packer
    return bytes(int(bits[i:i + 8], 2) for i in range(0, len(bits), 8))


def size_of(fields):
    n = 0
    for value, width, align, endian in fields:
        if align and n % 8:
            n += 8 - n % 8
        n += width
    return (n + 7) // 8


def order_fields(opcode, suffix, operands, reverse_codes=False, reverse_args=False):
    """The documented emission order.  opcode/suffix: field or None; operands: list of dicts with
    optional 'code': (field, 'prefix'|'suffix') and optional 'arg': field, in operand order.

    Pinned conventions (what the pinned tree does; see DESIGN.md C01): several prefix-positioned codes
    appear in reverse operand order (operand 1's code adjacent to the opcode); the reverse-order option
    for codes reverses the prefix group and the suffix group separately."""
    prefix, suff = [], []
    for op in operands:
        c = op.get('code')
        if c is not None:
            field, pos = c
            if pos == 'prefix':
                prefix.insert(0, field)
            else:
                suff.append(field)
    if reverse_codes:
        prefix.reverse()
        suff.reverse()
    out = prefix + [opcode] + suff
    if suffix is not None:
        out.append(suffix)
    args = [op['arg'] for op in operands if op.get('arg') is not None]
    if reverse_args:
        args.reverse()
    return out + args
