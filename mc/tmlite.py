"""A small interpreter for the two grammar formats the editor-extension generators emit (TextMate JSON
grammars and Sublime Text .sublime-syntax files), enough for single lines: rule stacks, includes,
begin/end and push/pop, leftmost match with ties broken by rule order, the end pattern of a TextMate
rule tried before its inner patterns, back-references from an end/pop pattern to the match that
opened the rule.  It never looks at bespokeasm.

tokenize_*(grammar, line) -> list of (start, end, scope)
"""
import re

_BACKREF = re.compile(r'\\([1-9])')


class GrammarError(ValueError):
    pass


def _compile(pattern, opener=None):
    if opener is not None and _BACKREF.search(pattern):
        def sub(m):
            i = int(m.group(1))
            try:
                return re.escape(opener.group(i) or '')
            except IndexError:
                return m.group(0)
        pattern = _BACKREF.sub(sub, pattern)
    try:
        return re.compile(pattern)
    except re.error as e:
        raise GrammarError(f'pattern {pattern!r} does not compile: {e}')


def _emit(tokens, m, scope, captures):
    if scope:
        tokens.append((m.start(), m.end(), scope))
    for k, v in (captures or {}).items():
        try:
            i = int(k)
        except ValueError:
            continue
        name = v.get('name') if isinstance(v, dict) else v
        if name and i <= (m.re.groups) and m.group(i) is not None:
            tokens.append((m.start(i), m.end(i), name))


# ---- TextMate ------------------------------------------------------------------------------------------------------------------

def _tm_flatten(grammar, patterns, seen=None):
    """-> list of leaf rules (dicts with match or begin), includes resolved, in order"""
    out = []
    seen = seen or ()
    for p in patterns or ():
        if 'include' in p:
            name = p['include']
            if name in ('$self', '$base'):
                if name not in seen:
                    out += _tm_flatten(grammar, grammar.get('patterns'), seen + (name,))
                continue
            if not name.startswith('#'):
                continue
            key = name[1:]
            if key in seen:
                continue
            rule = grammar.get('repository', {}).get(key)
            if rule is None:
                continue          # an include of a missing rule is ignored by the editors
            out += _tm_flatten(grammar, [rule], seen + (key,))
        elif 'match' in p or 'begin' in p:
            out.append(p)
        elif 'patterns' in p:
            out += _tm_flatten(grammar, p['patterns'], seen)
    return out


def tokenize_textmate(grammar, line, limit=2000):
    tokens = []
    stack = [{'patterns': grammar.get('patterns'), 'end': None, 'opener': None, 'rule': None}]
    pos = 0
    steps = 0
    visited = set()
    while pos <= len(line):
        steps += 1
        if steps > limit:
            raise GrammarError('tokenizer did not make progress')
        top = stack[-1]
        cands = []
        if top['end'] is not None:
            cands.append(('end', _compile(top['end'], top['opener']), top['rule']))
        for r in _tm_flatten(grammar, top['patterns']):
            cands.append(('match' if 'match' in r else 'begin', _compile(r['match'] if 'match' in r else r['begin']), r))
        best = None
        for order, (kind, rx, rule) in enumerate(cands):
            m = rx.search(line, pos)
            if m is not None and (best is None or m.start() < best[0].start()):
                best = (m, kind, rule)
        if best is None:
            break
        m, kind, rule = best
        key = (pos, len(stack), kind, id(rule), m.start(), m.end())
        if key in visited:
            pos += 1
            continue
        visited.add(key)
        if kind == 'end':
            _emit(tokens, m, None, rule.get('endCaptures') or rule.get('captures'))
            stack.pop()
            pos = m.end()
        elif kind == 'match':
            _emit(tokens, m, rule.get('name'), rule.get('captures'))
            pos = m.end() if m.end() > pos else pos + 1
        else:
            _emit(tokens, m, None, rule.get('beginCaptures') or rule.get('captures'))
            stack.append({'patterns': rule.get('patterns'), 'end': rule.get('end'), 'opener': m, 'rule': rule})
            pos = m.end()
    return tokens


# ---- Sublime -------------------------------------------------------------------------------------------------------------------

def _sb_flatten(syntax, items, seen=()):
    out = []
    for it in items or ():
        if 'include' in it:
            name = it['include']
            if name in seen:
                continue
            ctx = syntax['contexts'].get(name)
            if ctx is None:
                continue          # the generators drop the context of an empty category and leave its includes behind; read as "no rule"
            out += _sb_flatten(syntax, ctx, seen + (name,))
        elif 'match' in it:
            out.append(it)
    return out


def _sb_context(syntax, target):
    if isinstance(target, str):
        ctx = syntax['contexts'].get(target)
        if ctx is None:
            raise GrammarError(f'push of an undefined context {target!r}')
        return [ctx]
    if isinstance(target, list) and target and all(isinstance(t, str) for t in target):
        return [c for t in target for c in _sb_context(syntax, t)]
    return [target]


def tokenize_sublime(syntax, line, limit=2000):
    tokens = []
    stack = [(syntax['contexts']['main'], None)]
    pos = 0
    steps = 0
    visited = set()
    while pos <= len(line):
        steps += 1
        if steps > limit:
            raise GrammarError('tokenizer did not make progress')
        ctx, opener = stack[-1]
        best = None
        for it in _sb_flatten(syntax, ctx):
            m = _compile(str(it['match']), opener).search(line, pos)
            if m is not None and (best is None or m.start() < best[0].start()):
                best = (m, it)
        if best is None:
            break
        m, it = best
        key = (pos, len(stack), id(it), m.start(), m.end())
        if key in visited:
            pos += 1
            continue
        visited.add(key)
        _emit(tokens, m, it.get('scope'), it.get('captures'))
        moved = False
        if it.get('pop'):
            if len(stack) > 1:
                stack.pop()
            moved = True
        for keyw in ('push', 'set'):
            if keyw in it:
                if keyw == 'set' and len(stack) > 1:
                    stack.pop()
                for c in _sb_context(syntax, it[keyw]):
                    stack.append((c, m))
                moved = True
        pos = m.end() if (m.end() > pos or moved) else pos + 1
    return tokens


def scope_of(tokens, start, end):
    """Scope of the narrowest token that covers [start, end) entirely, or None."""
    best = None
    for s, e, name in tokens:
        if s <= start and e >= end and (best is None or (e - s) < (best[1] - best[0])):
            best = (s, e, name)
    return best


def overlapping(tokens, start, end, scope):
    return [(s, e, n) for s, e, n in tokens if n == scope and s < end and e > start]
