"""Decoders of the human-readable output formats into address -> byte maps (property C16).

Written from the format descriptions (Intel HEX record layout, the dump layout, the compact hex
layout `addr` / `:xx xx ..`, the listing table); nothing is imported from bespokeasm or intelhex.
"""
import re


class FormatError(Exception):
    pass


def decode_intel_hex(text):
    mem = {}
    base = 0
    saw_eof = False
    for raw in text.splitlines():
        line = raw.strip()
        if not line:
            continue
        if saw_eof:
            raise FormatError('record after the end-of-file record')
        if not line.startswith(':'):
            raise FormatError(f'record does not start with a colon: {line!r}')
        try:
            data = bytes.fromhex(line[1:])
        except ValueError:
            raise FormatError(f'non-hex record {line!r}')
        if len(data) < 5:
            raise FormatError(f'short record {line!r}')
        count, addr, rtype = data[0], (data[1] << 8) | data[2], data[3]
        payload, checksum = data[4:-1], data[-1]
        if len(payload) != count:
            raise FormatError(f'length field {count} but {len(payload)} data bytes in {line!r}')
        if (sum(data[:-1]) + checksum) & 0xFF:
            raise FormatError(f'bad checksum in {line!r}')
        if rtype == 0:
            for i, b in enumerate(payload):
                a = base + addr + i
                if a in mem:
                    raise FormatError(f'address {a:#x} described twice')
                mem[a] = b
        elif rtype == 1:
            saw_eof = True
        elif rtype == 2:
            base = ((payload[0] << 8) | payload[1]) << 4
        elif rtype == 4:
            base = ((payload[0] << 8) | payload[1]) << 16
        elif rtype in (3, 5):
            pass
        else:
            raise FormatError(f'unknown record type {rtype}')
    if text.strip() and not saw_eof:
        raise FormatError('missing end-of-file record')
    return mem


def decode_hex_dump(text):
    mem = {}
    for raw in text.splitlines():
        if not raw.strip():
            continue
        m = re.match(r'^([0-9A-Fa-f]+)\s\s((?:[0-9A-Fa-f-]{2}\s){16})\s?\|', raw)
        if not m:
            raise FormatError(f'unrecognised dump line {raw!r}')
        addr = int(m.group(1), 16)
        for i, tok in enumerate(m.group(2).split()):
            if tok != '--':
                a = addr + i
                if a in mem:
                    raise FormatError(f'address {a:#x} described twice')
                mem[a] = int(tok, 16)
    return mem


def decode_minhex(text, first_address=None):
    """Address lines are bare hex numbers; data lines start with ':' and continue from the running address.
    first_address: where the first data line goes if no address line precedes it (the format cannot say)."""
    mem = {}
    cursor = first_address
    for raw in text.splitlines():
        line = raw.strip()
        if not line:
            continue
        if line.startswith(':'):
            if cursor is None:
                raise FormatError('data before any address line')
            for tok in line[1:].split():
                if cursor in mem:
                    raise FormatError(f'address {cursor:#x} described twice')
                mem[cursor] = int(tok, 16)
                cursor += 1
        else:
            if not re.fullmatch(r'[0-9a-fA-F]+', line):
                raise FormatError(f'unrecognised line {line!r}')
            cursor = int(line, 16)
    return mem


def decode_listing(text):
    """-> (mem, rows) with rows = list of dicts {file, line, addr, bytes, instruction}"""
    mem = {}
    rows = []
    cur_file = None
    last = None
    for raw in text.splitlines():
        if raw.startswith('File: '):
            cur_file = raw[6:].strip()
            last = None
            continue
        if not raw.strip() or set(raw.strip()) <= set('-+') or raw.lstrip().startswith('line |'):
            continue
        cols = raw.split('|')
        if len(cols) < 5:
            raise FormatError(f'unrecognised listing row {raw!r}')
        lno, addr, code = cols[0].strip(), cols[1].strip(), cols[2].strip()
        instr = '|'.join(cols[3:-1]).strip() if len(cols) > 5 else cols[3].strip()
        data = bytes(int(t, 16) for t in code.split()) if code else b''
        if lno == '':
            if last is None:
                raise FormatError(f'continuation row without a statement row: {raw!r}')
            last['bytes'] += data
            continue
        row = {'file': cur_file, 'line': int(lno), 'addr': int(addr, 16) if addr else None, 'bytes': bytearray(data), 'instruction': instr}
        rows.append(row)
        last = row
    for r in rows:
        for i, b in enumerate(r['bytes']):
            a = r['addr'] + i
            if a in mem:
                raise FormatError(f'address {a:#x} described twice (line {r["line"]} of {r["file"]})')
            mem[a] = b
    return mem, rows
