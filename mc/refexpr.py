"""Reference semantics of numeric expressions (property C07), over the generator's own trees.

A tree is a tuple:
    ('n', value, notation)          numeric literal written in `notation`
    ('l', name)                     label
    ('neg', t)                      unary minus
    ('f', n, t)                     BYTEn(t); n == -1 means LSB(t)
    ('b', op, l, r)                 binary operator
Nothing here looks at source text of bespokeasm or parses expression text.
"""
from fractions import Fraction
import math

BIN_PREC = {'*': 4, '/': 4, '%': 4, '+': 3, '-': 3, '<<': 2, '>>': 2, '&': 1, '|': 1, '^': 1}
BINOPS = ['+', '-', '*', '/', '%', '<<', '>>', '&', '|', '^']


class DontCare(Exception):
    """The property statement does not fix the outcome of this expression."""


def lit(value, notation):
    if notation == 'dec':
        return str(value)
    if notation == 'dollar':
        return '$%X' % value
    if notation == 'dollar_lc':
        return '$%x' % value
    if notation == '0x':
        return '0x%x' % value
    if notation == '0xpad':
        return '0x%04X' % value
    if notation == 'H':
        s = '%X' % value
        return s + 'H'          # [0-9a-fA-F]+H
    if notation == '0H':
        return '0%XH' % value
    if notation == 'pct':
        return '%' + bin(value)[2:]
    if notation == 'b':
        return 'b' + bin(value)[2:]
    if notation == 'bpad':
        return 'b' + bin(value)[2:].zfill(8)
    if notation == 'chr':
        return "'" + chr(value) + "'"
    raise ValueError(notation)


NOTATIONS = ['dec', 'dollar', 'dollar_lc', '0x', '0xpad', 'H', '0H', 'pct', 'b', 'bpad']


def prec(t):
    return BIN_PREC[t[1]] if t[0] == 'b' else 5


def render(t, minimal=True):
    """Text of the tree; minimal=True inserts only the parentheses the stated precedence and
    left-associativity require, minimal=False parenthesises every compound operand."""
    k = t[0]
    if k == 'n':
        return lit(t[1], t[2])
    if k == 'l':
        return t[1]
    if k == 'neg':
        inner = render(t[1], minimal)
        if t[1][0] == 'b' or (not minimal and t[1][0] in ('neg',)):
            inner = '(' + inner + ')'
        return '-' + inner if t[1][0] != 'neg' or inner.startswith('(') else '- ' + inner
    if k == 'f':
        name = 'LSB' if t[1] < 0 else 'BYTE%d' % t[1]
        return name + '(' + render(t[2], minimal) + ')'
    op, l, r = t[1], t[2], t[3]
    p = BIN_PREC[op]
    ls, rs = render(l, minimal), render(r, minimal)
    if minimal:
        if prec(l) < p:
            ls = '(' + ls + ')'
        if prec(r) <= p:
            rs = '(' + rs + ')'
    else:
        if l[0] in ('b', 'neg'):
            ls = '(' + ls + ')'
        if r[0] in ('b', 'neg'):
            rs = '(' + rs + ')'
    return ls + ' ' + op + ' ' + rs


def _is_int(v):
    return isinstance(v, int) or (isinstance(v, Fraction) and v.denominator == 1)


def evaluate(t, labels):
    """Exact value (int or Fraction) before the final truncation; raises DontCare where the
    statement does not define the result."""
    k = t[0]
    if k == 'n':
        return t[1]
    if k == 'l':
        return labels[t[1]]
    if k == 'neg':
        return -evaluate(t[1], labels)
    if k == 'f':
        v = evaluate(t[2], labels)
        if not _is_int(v):
            raise DontCare('byte extraction of a non-integer')
        v = int(v)
        n = 0 if t[1] < 0 else t[1]
        return (v >> (8 * n)) & 0xFF
    op = t[1]
    a = evaluate(t[2], labels)
    b = evaluate(t[3], labels)
    if op == '+':
        return a + b
    if op == '-':
        return a - b
    if op == '*':
        return a * b
    if op == '/':
        if b == 0:
            raise DontCare('division by zero')
        return Fraction(a) / Fraction(b)
    if op == '%':
        if b == 0:
            raise DontCare('modulo by zero')
        if a < 0 or b < 0:
            raise DontCare('modulo of negative operands (sign conventions differ)')
        # non-negative operands, integer or not: the remainder a - b*floor(a/b) is what every convention gives
        fa, fb = Fraction(a), Fraction(b)
        r = fa - fb * math.floor(fa / fb)
        return int(r) if r.denominator == 1 else r
    if not (_is_int(a) and _is_int(b)):
        raise DontCare('bitwise/shift on a non-integer')
    a, b = int(a), int(b)
    if op in ('<<', '>>'):
        if b < 0:
            raise DontCare('negative shift count')
        if b > 256:
            raise DontCare('huge shift count')
        return a << b if op == '<<' else a >> b
    if op == '&':
        return a & b
    if op == '|':
        return a | b
    if op == '^':
        return a ^ b
    raise ValueError(op)


def evaluate_float(t, labels):
    """The same tree evaluated with IEEE doubles for / (the approximation of "real quotient" the
    implementation is allowed); used only to classify cases where exact and double evaluation
    truncate differently as don't-care."""
    k = t[0]
    if k == 'n':
        return t[1]
    if k == 'l':
        return labels[t[1]]
    if k == 'neg':
        return -evaluate_float(t[1], labels)
    if k == 'f':
        v = int(evaluate_float(t[2], labels))
        n = 0 if t[1] < 0 else t[1]
        return (v >> (8 * n)) & 0xFF
    op = t[1]
    a = evaluate_float(t[2], labels)
    b = evaluate_float(t[3], labels)
    if op == '+':
        return a + b
    if op == '-':
        return a - b
    if op == '*':
        return a * b
    if op == '/':
        return float(a) / float(b)
    if op == '%':
        return float(a) % float(b)
    a, b = int(a), int(b)
    if op == '<<':
        return a << b
    if op == '>>':
        return a >> b
    if op == '&':
        return a & b
    if op == '|':
        return a | b
    return a ^ b


def final_value(t, labels):
    """Truncated-toward-zero reference value, or raises DontCare."""
    v = evaluate(t, labels)
    exact = int(v) if _is_int(v) else math.trunc(v)
    try:
        f = evaluate_float(t, labels)
        if isinstance(f, float) and (math.isinf(f) or math.isnan(f)):
            raise DontCare('double overflow')
        approx = int(f)
    except (OverflowError, ZeroDivisionError, ValueError):
        raise DontCare('double evaluation undefined')
    if approx != exact:
        raise DontCare('exact and IEEE-double evaluation truncate differently')
    return exact


# ------------------------------------------------------------------------------------------------
# recogniser of the stated grammar over token lists (for the malformed family)

ATOMS = {'1', 'zz', '7'}
FUNCS = {'LSB(', 'BYTE1('}


def recognise(tokens):
    """Returns the tree if `tokens` is a well-formed expression of the stated grammar else None."""
    pos = [0]

    def peek():
        return tokens[pos[0]] if pos[0] < len(tokens) else None

    def eat():
        pos[0] += 1
        return tokens[pos[0] - 1]

    def level(ops, sub):
        def f():
            left = sub()
            if left is None:
                return None
            while peek() in ops:
                op = eat()
                right = sub()
                if right is None:
                    return None
                left = ('b', op, left, right)
            return left
        return f

    def e4():
        t = peek()
        if t in ATOMS:
            eat()
            return ('l', 'zz') if t == 'zz' else ('n', int(t), 'dec')
        if t in FUNCS:
            eat()
            inner = e()
            if inner is None or peek() != ')':
                return None
            eat()
            return ('f', -1 if t == 'LSB(' else 1, inner)
        if t == '-':
            eat()
            inner = e4()
            return None if inner is None else ('neg', inner)
        if t == '(':
            eat()
            inner = e()
            if inner is None or peek() != ')':
                return None
            eat()
            return inner
        return None

    e3 = level({'*', '/', '%'}, e4)
    e2 = level({'+', '-'}, e3)
    e1 = level({'<<', '>>'}, e2)
    e0 = level({'&', '|', '^'}, e1)

    def e():
        return e0()

    tree = e()
    if tree is None or pos[0] != len(tokens):
        return None
    return tree
