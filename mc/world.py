"""World harness: one execution of the real assembler from the working tree.

Everything here drives the code under $VERIF_REPO/src (default /repo/src).  Two execution
routes exist and are kept bound to each other by the cross-check in explore.py:

  * run_inproc(case)  - calls the real click callback `bespokeasm.__main__.compile.callback`
                        (the body of `bespokeasm compile`) in this process, after resetting
                        the class-level state the code keeps between runs.
  * run_cli(case)     - `python -m bespokeasm compile ...` in a fresh subprocess.
"""
from __future__ import annotations

import io
import json
import os
import shutil
import signal
import subprocess
import sys
import tempfile

REPO = os.environ.get('VERIF_REPO', '/repo')
SRC = os.path.join(REPO, 'src')
PYTHON = os.environ.get('VERIF_PYTHON', '/venv/bin/python')
GUARD = 'BESPOKEASM_VERIF'

os.environ.setdefault('PYTHONDONTWRITEBYTECODE', '1')
sys.dont_write_bytecode = True
if SRC not in sys.path[:1]:
    sys.path.insert(0, SRC)

SENTINEL = b'\xde\xad-SENTINEL-not-an-image\n'


class HangError(BaseException):
    pass


def _alarm_handler(signum, frame):
    raise HangError()


class Case:
    """One whole assembly: ISA definition, source files, command-line options."""
    __slots__ = ('isa', 'files', 'main', 'start', 'end', 'fill', 'pretty', 'incdirs', 'defines',
                 'binary', 'preseed', 'tag', 'isa_yaml', 'isa_file', 'verbose')

    def __init__(self, isa, files, main='main.asm', start=0, end=None, fill=0, pretty=None,
                 incdirs=(), defines=(), binary=True, preseed=False, tag=None, isa_yaml=False, isa_file=None, verbose=0):
        self.isa = isa
        self.files = files if isinstance(files, dict) else {main: files}
        self.main = main
        self.start = start
        self.end = end
        self.fill = fill
        self.pretty = pretty
        self.incdirs = tuple(incdirs)
        self.defines = tuple(defines)
        self.binary = binary
        self.preseed = preseed
        self.tag = tag
        self.isa_yaml = isa_yaml
        self.isa_file = isa_file          # base name of the definition file (default isa.json / isa.yaml)
        self.verbose = verbose            # number of -v flags

    def to_json(self):
        return {
            'isa': self.isa, 'files': self.files, 'main': self.main, 'start': self.start,
            'end': self.end, 'fill': self.fill, 'pretty': self.pretty, 'incdirs': list(self.incdirs),
            'defines': list(self.defines), 'binary': self.binary, 'preseed': self.preseed,
            'tag': self.tag, 'isa_yaml': self.isa_yaml, 'isa_file': self.isa_file, 'verbose': self.verbose,
        }

    @classmethod
    def from_json(cls, d):
        return cls(d['isa'], d['files'], d.get('main', 'main.asm'), d.get('start', 0), d.get('end'),
                   d.get('fill', 0), d.get('pretty'), d.get('incdirs', ()), d.get('defines', ()),
                   d.get('binary', True), d.get('preseed', False), d.get('tag'), d.get('isa_yaml', False), d.get('isa_file'), d.get('verbose', 0))


class Outcome:
    __slots__ = ('status', 'detail', 'image', 'pretty', 'stdout')

    def __init__(self, status, detail, image, pretty, stdout=''):
        self.status = status      # 'OK' | 'REJECT' | 'HANG'
        self.detail = detail
        self.image = image        # bytes or None (file absent)
        self.pretty = pretty      # str or None
        self.stdout = stdout

    @property
    def ok(self):
        return self.status == 'OK'

    def key(self):
        return (self.status, self.image, self.pretty)

    def to_json(self):
        return {'status': self.status, 'detail': (self.detail or '')[:300],
                'image_hex': None if self.image is None else self.image.hex(),
                'pretty': self.pretty}

    def __repr__(self):
        img = None if self.image is None else self.image.hex()
        return f'Outcome({self.status}, image={img}, detail={(self.detail or "")[:80]!r})'


# ------------------------------------------------------------------------------------------------
# scratch directory (per process)

_scratch = None
_scratch_pid = None


def scratch_dir():
    global _scratch, _scratch_pid
    if _scratch is None or _scratch_pid != os.getpid():
        base = '/dev/shm' if os.path.isdir('/dev/shm') else None
        _scratch = tempfile.mkdtemp(prefix='bespokeverif_', dir=base)
        _scratch_pid = os.getpid()
        import atexit
        atexit.register(_cleanup, _scratch, os.getpid())
    return _scratch


def drop_scratch():
    """Removes this process's scratch directory (pool workers leave through os._exit, which runs no atexit handler)."""
    global _scratch
    if _scratch is not None and _scratch_pid == os.getpid():
        shutil.rmtree(_scratch, ignore_errors=True)
        _last_files.clear()
        _last_isa_written.clear()
    _scratch = None


def _cleanup(path, pid):
    if os.getpid() == pid:
        shutil.rmtree(path, ignore_errors=True)


_last_isa_written = {}
_last_files = {}


def _materialize(case: Case, root: str):
    """Writes the case's files under root; returns (asm_path, cfg_path, out_path, pp_path)."""
    work = os.path.join(root, 'w')
    prev = _last_files.get(work)
    if prev is None:
        if os.path.isdir(work):
            shutil.rmtree(work)
        os.makedirs(work)
    else:
        # remove exactly what the previous execution in this directory created (cheaper than rmtree)
        for pth in prev:
            try:
                os.unlink(pth)
            except FileNotFoundError:
                pass
        for pth in (os.path.join(work, 'out.bin'), os.path.join(work, 'out.pp')):
            try:
                os.unlink(pth)
            except FileNotFoundError:
                pass
        leftover = os.listdir(work)
        if any(not os.path.isdir(os.path.join(work, e)) for e in leftover):
            shutil.rmtree(work)
            os.makedirs(work)
    written = []
    _last_files[work] = written
    # ISA definition: JSON (AssemblerModel accepts .json) unless the case asks for YAML
    if case.isa_yaml:
        import yaml
        _int_keys(case.isa)
        cfg = os.path.join(root, case.isa_file or 'isa.yaml')
        with open(cfg, 'w') as f:
            yaml.safe_dump(case.isa, f)
    else:
        cfg = os.path.join(root, case.isa_file or 'isa.json')
        blob = case.isa if isinstance(case.isa, str) else json.dumps(case.isa)
        if _last_isa_written.get(cfg) != blob:
            with open(cfg, 'w') as f:
                f.write(blob)
            _last_isa_written[cfg] = blob
    for rel, text in case.files.items():
        p = os.path.join(work, rel)
        d = os.path.dirname(p)
        if not os.path.isdir(d):
            os.makedirs(d)
        if text.startswith('@symlink:'):
            # a file that is a symbolic link to another file of the case (target relative to the link's directory)
            if os.path.lexists(p):
                os.remove(p)
            os.symlink(text[len('@symlink:'):], p)
        else:
            if os.path.islink(p):
                os.remove(p)
            with open(p, 'w', newline='') as f:
                f.write(text)
        written.append(p)
    for d in case.incdirs:
        if d.startswith('='):
            continue            # passed literally on the command line (a spelling relative to the working directory)
        p = os.path.join(work, d)
        if not os.path.isdir(p):
            os.makedirs(p)
    asm = os.path.join(work, case.main)
    out = os.path.join(work, 'out.bin')
    pp = os.path.join(work, 'out.pp')
    if case.preseed:
        with open(out, 'wb') as f:
            f.write(SENTINEL)
    return work, asm, cfg, out, pp


def _int_keys(node):
    """A case that went through JSON (cross-check, replay) has lost the integer keys of numeric
    enumeration dictionaries; YAML-tagged cases get them back before the definition is written."""
    if isinstance(node, dict):
        for k, v in list(node.items()):
            if k == 'value_dict' and isinstance(v, dict) and all(isinstance(x, str) and x.lstrip('-').isdigit() for x in v):
                node[k] = {int(x): y for x, y in v.items()}
            else:
                _int_keys(v)
    elif isinstance(node, list):
        for v in node:
            _int_keys(v)


def _collect(status, detail, out, pp, case, stdout, work=None):
    image = None
    if os.path.exists(out):
        with open(out, 'rb') as f:
            image = f.read()
    pretty = None
    if case.pretty and os.path.exists(pp):
        with open(pp) as f:
            pretty = f.read()
        if work:
            pretty = pretty.replace(work, '<W>')
    return Outcome(status, detail, image, pretty, stdout)


# ------------------------------------------------------------------------------------------------
# in-process execution

_modules = None


def _load():
    global _modules
    if _modules is None:
        import bespokeasm.__main__ as m
        from bespokeasm.assembler.label_scope import LabelScope
        from bespokeasm.assembler.line_object.instruction_line import InstructionLine
        from bespokeasm.assembler.assembly_file import AssemblyFile
        assert os.path.realpath(m.__file__).startswith(os.path.realpath(SRC)), \
            f'bespokeasm imported from {m.__file__}, expected under {SRC}'
        _modules = (m, LabelScope, InstructionLine, AssemblyFile)
    return _modules


def reset_globals():
    """Puts the class-level state bespokeasm keeps between runs back to its import-time value,
    which is what a fresh CLI process sees."""
    m, LabelScope, InstructionLine, AssemblyFile = _load()
    LabelScope._global_scope = None
    InstructionLine._INSTRUCTUION_EXTRACTION_PATTERN = None
    fn = AssemblyFile.load_line_objects
    if fn.__defaults__:
        for d in fn.__defaults__:
            if isinstance(d, set):
                d.clear()
    # Preprocessor.resolve_symbols has a mutable default that is never mutated; checked here
    from bespokeasm.assembler.preprocessor import Preprocessor
    dfl = Preprocessor.resolve_symbols.__defaults__
    if dfl:
        for d in dfl:
            if isinstance(d, set) and d:
                d.clear()
    _restore_class_state()


_class_state = None


def _snapshot_class_state():
    """Every mutable container (set / dict / list) that is a class attribute or a module global of a bespokeasm module, and every
    memoised function (anything with cache_clear), as found right after import.  A fresh CLI process starts from exactly these."""
    import copy
    import importlib
    import pkgutil
    import bespokeasm
    for info in pkgutil.walk_packages(bespokeasm.__path__, 'bespokeasm.'):
        try:
            importlib.import_module(info.name)
        except Exception:
            pass
    conts, caches, nones = [], [], []
    seen = set()
    for name, mod in list(sys.modules.items()):
        if not (name == 'bespokeasm' or name.startswith('bespokeasm.')) or mod is None:
            continue
        import enum
        owners = [mod] + [v for v in vars(mod).values() if isinstance(v, type) and getattr(v, '__module__', '').startswith('bespokeasm')
                          and not issubclass(v, enum.Enum)]
        for owner in owners:
            for attr, val in list(vars(owner).items()):
                if attr.startswith('__') and attr.endswith('__'):
                    continue
                if isinstance(val, (staticmethod, classmethod)):
                    val = val.__func__
                if val is None and isinstance(owner, type):
                    if (owner, attr) not in nones:
                        nones.append((owner, attr))
                    continue
                if hasattr(val, 'cache_clear') and id(val) not in seen:
                    seen.add(id(val))
                    caches.append(val)
                elif type(val) in (set, dict, list) and id(val) not in seen:
                    seen.add(id(val))
                    try:
                        conts.append((val, copy.deepcopy(val)))
                    except Exception:
                        pass
    return conts, caches, nones


def _restore_class_state():
    global _class_state
    import copy
    if _class_state is None:
        _class_state = _snapshot_class_state()
        return
    conts, caches, nones = _class_state
    for owner, attr in nones:
        if vars(owner).get(attr, None) is not None:
            setattr(owner, attr, None)
    for live, snap in conts:
        try:
            same = (live == snap)
        except Exception:
            same = False
        if not same:
            fresh = copy.deepcopy(snap)
            if isinstance(live, list):
                live[:] = fresh
            else:
                live.clear()
                live.update(fresh)
    for fn in caches:
        fn.cache_clear()


def run_inproc(case: Case, timeout: float = 10.0, tracer=None) -> Outcome:
    m = _load()[0]
    root = scratch_dir()
    work, asm, cfg, out, pp = _materialize(case, root)
    reset_globals()
    incs = tuple(d[1:] if d.startswith('=') else os.path.join(work, d) for d in case.incdirs)
    old_stdout, old_stderr = sys.stdout, sys.stderr
    buf = io.StringIO()
    sys.stdout = buf
    sys.stderr = buf
    status, detail = 'OK', None
    # the budget is processor time of this process (a loop that never ends burns it whatever the load of the machine), with a far
    # longer wall-clock backstop for a wait that burns none; a busy machine alone never turns a terminating run into a "hang"
    old_handler = signal.signal(signal.SIGALRM, _alarm_handler)
    old_prof = signal.signal(signal.SIGPROF, _alarm_handler)
    signal.setitimer(signal.ITIMER_PROF, timeout)
    signal.setitimer(signal.ITIMER_REAL, max(120.0, timeout * 12))
    try:
        if tracer is not None:
            sys.settrace(tracer)
        try:
            m.compile.callback(
                asm_file=asm, config_file=cfg, binary=case.binary, output_file=out,
                binary_min_address=case.start,
                binary_max_address=-1 if case.end is None else case.end,
                binary_fill=case.fill,
                pretty_print=bool(case.pretty), pretty_print_format=case.pretty or 'listing',
                pretty_print_output=pp, verbose=case.verbose, include_path=incs, macro_symbol=case.defines,
            )
        finally:
            if tracer is not None:
                sys.settrace(None)
            signal.setitimer(signal.ITIMER_PROF, 0)
            signal.setitimer(signal.ITIMER_REAL, 0)
    except SystemExit as e:
        if e.code not in (None, 0):
            status, detail = 'REJECT', f'SystemExit: {e.code}'
    except HangError:
        status, detail = 'HANG', f'no termination within {timeout}s of processor time'
    except RecursionError as e:
        status, detail = 'REJECT', f'RecursionError: {e}'
    except Exception as e:  # a traceback is a non-zero exit of the CLI
        status, detail = 'REJECT', f'{type(e).__name__}: {e}'
    finally:
        signal.setitimer(signal.ITIMER_PROF, 0)
        signal.setitimer(signal.ITIMER_REAL, 0)
        signal.signal(signal.SIGALRM, old_handler)
        signal.signal(signal.SIGPROF, old_prof)
        sys.stdout, sys.stderr = old_stdout, old_stderr
    return _collect(status, detail, out, pp, case, buf.getvalue(), work)


# ------------------------------------------------------------------------------------------------
# subprocess execution through the real command line

def cli_argv(case: Case, work, asm, cfg, out, pp):
    argv = [PYTHON, '-m', 'bespokeasm', 'compile', asm, '-c', cfg, '-o', out]
    if not case.binary:
        argv.append('-n')
    if case.start != 0:
        argv += ['-s', str(case.start)]
    if case.end is not None:
        argv += ['-e', str(case.end)]
    if case.fill != 0:
        argv += ['-f', str(case.fill)]
    if case.pretty:
        argv += ['-p', '-t', case.pretty, '--pretty-print-output', pp]
    for d in case.incdirs:
        argv += ['-I', d[1:] if d.startswith('=') else os.path.join(work, d)]
    for s in case.defines:
        argv += ['-D', s]
    if case.verbose:
        argv.append('-' + 'v' * case.verbose)
    return argv


def run_cli(case: Case, timeout: float = 60.0, env_extra=None, cwd=None, root=None, env_base=None) -> Outcome:
    own = root is None
    if own:
        root = tempfile.mkdtemp(prefix='bespokeverif_cli_', dir='/dev/shm' if os.path.isdir('/dev/shm') else None)
    try:
        _last_isa_written.pop(os.path.join(root, 'isa.json'), None)
        work, asm, cfg, out, pp = _materialize(case, root)
        source_env = os.environ if env_base is None else env_base
        env = {k: v for k, v in source_env.items() if not k.startswith('BESPOKEASM_') or k == GUARD}
        env['PYTHONPATH'] = SRC
        env['PYTHONDONTWRITEBYTECODE'] = '1'
        if env_extra:
            env.update(env_extra)
        try:
            p = subprocess.run(cli_argv(case, work, asm, cfg, out, pp), capture_output=True, text=True,
                               timeout=timeout, env=env, cwd=(work if cwd in (None, '<work>') else root if cwd == '<root>' else cwd))
            status = 'OK' if p.returncode == 0 else 'REJECT'
            detail = None if p.returncode == 0 else (p.stderr.strip().splitlines() or [''])[-1]
            stdout = p.stdout
        except subprocess.TimeoutExpired:
            status, detail, stdout = 'HANG', f'no termination within {timeout}s', ''
        return _collect(status, detail, out, pp, case, stdout, work)
    finally:
        if own:
            shutil.rmtree(root, ignore_errors=True)
