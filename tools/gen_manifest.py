#!/usr/bin/env python3
"""Regenerates /verif/MANIFEST.json from the table below (one entry per built check)."""
import json
import os

HERE = os.path.dirname(os.path.dirname(os.path.abspath(__file__)))

TITLES = {}
with open(os.path.join(HERE, 'properties.jsonl')) as f:
    for line in f:
        line = line.strip()
        if line:
            d = json.loads(line)
            TITLES[d['id']] = d['title']

# id -> (category, technique, text, note, design_ref)
BUILT = {
    'C07': ('exploration',
            'exhaustive enumeration of expression trees / token sequences against a Fraction reference evaluator',
            'Every expression tree with up to 3 (thorough: 4) operator nodes over a small atom alphabet, printed with minimal and '
            'with full parentheses, every literal notation on a value grid, every byte-extraction on a value grid and every token '
            'sequence up to length 4 (thorough: 6) is executed on the real parser/evaluator and compared with an exact reference; '
            'malformed sequences must be rejected. Exhaustive inside the stated bounds, nothing outside them.',
            'Reference evaluator mc/refexpr.py; IEEE-double division accepted as "real quotient"; cases the statement leaves '
            'undefined (division by zero, % of negatives, bitwise on non-integers) are counted as dont_care, not judged. '
            'Candidate violations are confirmed through the real CLI before being reported.',
            'DESIGN.md 3/C07'),
    'C08': ('model_checking',
            'explicit-state exploration of directive histories on the real assembler against a reference conditional-stack model',
            'Every history of preprocessor directives over a 17-symbol alphabet up to depth 4 (thorough 5), and up to depth 5 '
            '(thorough 6) over a core alphabet, is turned into a program with a unique marker region after each directive and an '
            'observation suffix, assembled by the real code and compared byte for byte (or rejection for rejection) with the '
            'reference semantics of the statement; histories to depth 3 (thorough 4) with included files that carry stray or balanced '
            'directives of their own; the comparison-operator product. Full tree, stateless re-execution; every explored transition is an execution '
            'of the implementation.',
            'Reference model mc/refasm.py. Not judged: #else/#elif after #else, chains open at end of file. A condition on an undefined symbol '
            '(requirement documents contradict each other) is judged under every permitted reading (true / false / error). #mute is a counter as pinned by the repository tests. '
            'Candidate violations are confirmed through the real CLI.',
            'DESIGN.md 3/C08'),
    'C02': ('model_checking',
            'explicit-state exploration of line histories on the real assembler against a reference two-pass layout model',
            'Every history over a 30-symbol line alphabet (labels, a zero-valued constant, a macro of sub-byte steps, an embedded string, instructions of three sizes, data, fills, origins, alignments, '
            'zone switches, muting, an excluded block; forward and backward references) up to depth 3 (thorough 4), and one level '
            'deeper over a core alphabet, under three configurations, is assembled by the real code; the whole image must equal '
            'the reference layout, which fixes every address, every label value (read out by a suffix) and every line size.',
            'Reference model mc/refasm.py. A label directly followed by an address-moving directive is not judged when referenced. '
            'Candidate violations are confirmed through the real CLI.',
            'DESIGN.md 3/C02'),
    'C03': ('model_checking',
            'explicit-state exploration of program histories x exhaustive window product on the real assembler',
            'For every accepted program history (depth <=3, thorough <=4, three configurations incl. predefined data and a '
            'non-zero origin) every (start, end, fill) window over the address range +2 is assembled by the real CLI callback '
            'and the image compared with the reference window onto the reference memory map (emitted zero bytes included).',
            'Reference model mc/refasm.py (muted lines occupy addresses, emit nothing). Windows with end < start-1 not generated.',
            'DESIGN.md 3/C03'),
    'C04': ('model_checking',
            'exhaustive enumeration of line placements in every source order against a pairwise-disjointness oracle',
            'Every ordered pair and triple (thorough: quadruple) of byte-producing lines over start x kind x length (data, fills, '
            'instructions, zone-relative origins into overlapping zones, a line in an included file, a predefined data block, '
            'zero-length lines) is assembled; rejection is expected iff two lines of length >=1 share an address, otherwise the '
            'image must be the union; every pair and touching triple is run again with --no-binary and one of the four pretty-print '
            'formats (acceptance only).',
            'Reference model mc/refasm.py; muted lines not generated.',
            'DESIGN.md 3/C04'),
    'C05': ('model_checking',
            'explicit-state exploration of zone-switching programs in a 5-bit address space against a reference zone model',
            'Every program over a 15-symbol zone alphabet (zone selection, relative (also negative) and absolute origins, data, fills ending at / '
            'one past a zone end, alignment, an include that switches zone) up to depth 3-4 (thorough 4-5) under six zone layouts, '
            'plus the full grid of well- and ill-formed zone declarations in source and in the ISA definition; the image must equal '
            'the reference layout and rejection must occur iff a byte would leave its zone or GLOBAL.',
            'Reference model mc/refasm.py. Origins/alignments that leave a zone without placing a byte there are not judged.',
            'DESIGN.md 3/C05'),
    'C06': ('model_checking',
            'explicit-state exploration of definition/reference histories across files against a reference scope resolver',
            'Every history over 31 symbols (global/file/local definitions with colliding names, names differing only in letter case, references, constants, scope-resetting '
            'directives, six catalogue includes, six ill-named labels) up to depth 3 (thorough 4) and one level deeper over a core '
            'alphabet, with and without closing forward definitions; the emitted byte of every reference must be the value of the '
            'unique visible definition, otherwise the program must be rejected.',
            'Reference model mc/refasm.py.',
            'DESIGN.md 3/C06'),
    'C09': ('model_checking',
            'exhaustive enumeration of symbol tables x definition sources x use lines against a token-level substitution model',
            'Every symbol table over three symbols (values: literals, chains, diamonds, self reference, 2- and 3-cycles, identifiers '
            'that merely contain a symbol name) x every assignment of definition sources (ISA definition, -D, #define) x use lines '
            'written before and after the #define block is assembled; bytes must equal whole-word, definition-ordered, repeated '
            'textual substitution; cycles and double definitions (all source pairs) must be rejected.',
            'Reference substitution written in mc/props/c09.py over token lists. Empty replacements only in double-definition cases.',
            'DESIGN.md 3/C09'),
    'C11': ('exploration',
            'exhaustive product of data/fill directives, value lists, strings and terminators against direct byte computation',
            'Every .byte/.2byte/.4byte/.8byte list of length <=2 over 20 values (negative, oversized, label and forward-label '
            'expressions, character literals; length 3 over 7 values) in both byte orders, every string of length <=3 over 10 '
            'characters/escapes in both quote styles under .byte/.cstr/.asciiz x terminator and as embedded string, and the '
            'fill/zero/zerountil grid, each placed between a prefix and a labelled sentinel.',
            'Reference bytes from mc/refasm.py; known finding F24b (list starting with a character literal) attributed only when the '
            'observed image equals the defect-mode prediction.',
            'DESIGN.md 3/C11'),
    'C17': ('model_checking',
            'exhaustive enumeration of programs x all block cuts into included files, reference include model + differential runs',
            'Every program of up to 4 (thorough 5) units over a 13-unit alphabet is split in every way (one contiguous block, and a '
            'nested sub-block) into included files and assembled; outcome must equal the reference include semantics, and for '
            'scope/zone-neutral blocks the image of the split program must equal the image of the unsplit program (both real '
            'executions). A placement product covers missing / ambiguous / repeated / self includes and duplicated directories.',
            'Reference model mc/refasm.py; conditional chains are never split across files.',
            'DESIGN.md 3/C17'),
    'C01': ('exploration',
            'exhaustive product of generated instruction layouts x value instances against a bit-string reference encoder',
            'Frames (default endianness x 7 opcode sizes x opcode endianness x opcode suffix) x every single-operand shape (every '
            'operand type; argument widths 1..64 x byte_align x endianness; code sizes x prefix/suffix) x every value instance, '
            'plus ordered pairs (thorough: triples) of shapes x reverse options x matching route, are packed into generated ISA '
            'definitions; every statement is assembled at two base addresses and its bytes compared with the reference '
            'concatenation of fields. About 5*10^5 statements in the quick tier.',
            'Reference encoder mc/refenc.py over bit strings. Pinned conventions for the order of several prefix codes and for '
            'reverse_bytecode_order are stated in DESIGN.md. Statements are batched; a mismatching batch is re-run statement by '
            'statement.',
            'DESIGN.md 3/C01'),
    'C12': ('exploration',
            'exhaustive product of constraint configurations x boundary values, one statement per assembly',
            'Field widths 1..17,24,31,32,33,63,64 x alignment x endianness x opcode width x operand kind with the nine values on '
            'and next to the signed/unsigned range; numeric_bytecode min/max grids; every numeric-enumeration key set within 0..4; '
            'address / valid_address operands against zone grids (redefined GLOBAL, named zone); sliced addresses on both sides '
            'of page boundaries; relative offsets min-1..max+1 for (min,max) x offset_from_instruction_end x instruction size x '
            'address; the same relative boundaries when the instruction is a step of a macro. ACCEPT iff all constraints hold (then '
            'bytes = reference) else REJECT.',
            'Reference mc/refenc.py; relative targets kept inside GLOBAL.',
            'DESIGN.md 3/C12'),
    'C13': ('exploration',
            'exhaustive enumeration of deliberately ambiguous generated definitions x operand texts against a category-level matcher',
            'Every ordered pair of one-slot variants whose operand set is any subset (size <=2, thorough 3) of 13 alternative kinds x 18 '
            'operand texts x mnemonic case, two-slot variants over a reduced subset list with and without an explicitly listed '
            'combination and a disallowed pair x pairs of 8 texts, variants using one operand set in both slots with an asymmetric '
            'disallowed pair, explicit combinations with an empty operand, and three-variant definitions; every variant has its own opcode '
            'and every alternative its own code so the image names the choice; expected = first accepting variant by the stated '
            'priority, or rejection; statements accepted one by one must be encoded the same way in sequence; the same definition with '
            'its operand ids respelled must encode every statement alike.',
            'Reference matcher in mc/props/c13.py over text categories known by construction. Sets with two numeric-like alternatives '
            'are not generated (the statement does not order them). Fully unmatched statements are thinned to one instruction per group.',
            'DESIGN.md 3/C13'),
    'C10': ('model_checking',
            'exhaustive enumeration of macro definitions x invocations, differential pairs of real executions',
            'For 6 operand patterns, every sequence of 1..3 (thorough 4) step templates (12-bit steps, relative-address steps, all '
            'placeholder kinds, expressions around placeholders), as only variant and as second variant, x every invocation (literals, '
            'backward/forward labels, label expressions, registers): the image of the program with the macro must equal the image of '
            'the program with the invocation replaced by the substituted steps (two executions of the real assembler per case); '
            'unfillable placeholders must be rejected.',
            'Differential oracle; substitution done by the generator on its own structured operands; a label after the invocation '
            'observes the macro size.',
            'DESIGN.md 3/C10'),
    'C19': ('fault_enumeration',
            'single-fault enumeration at every applicable site of well-formed definitions + version grids',
            'Every fault of a 19-entry catalogue at every applicable site of two generated definitions that use every section (first '
            'sites of the 8 definitions shipped with the repository), the 512-point min_version grid and the 1920-point #require grid (3 language names); '
            'faulty definitions must be rejected, base definitions (incl. the shipped ones) must load, version gates must follow '
            'version ordering.',
            'Version ordering computed by the check itself (integer triple, pre-release rank).',
            'DESIGN.md 3/C19'),
    'C16': ('model_checking',
            'explicit-state exploration of program histories; six real executions per program, independent format decoders',
            'For every accepted program history of depth <=3 (thorough 4) over a 12-symbol alphabet under address widths 8/10/12/16/24/32, '
            'the exact address->byte map is recovered from two images (fill 00/ff) and the Intel HEX records, the hex dump, the '
            'compact hex format and the listing columns, each decoded by an independent decoder, must give the same map; listing '
            'rows are compared with the reference lines (each statement once, its address, its bytes, nothing for muted lines).',
            'Decoders mc/formats.py; reference lines mc/refasm.py; the compact format is told the lowest emitted address when no '
            'origin precedes its first data line.',
            'DESIGN.md 3/C16'),
    'C18': ('model_checking',
            'exhaustive enumeration of rewrite-site subsets over token-structured base programs, pairs of real executions',
            'For 270 base programs (thorough: +1000 triples) and each of 10 rewrite kinds (mnemonic / register case, token separator, '
            'comma spacing, bracket padding, indentation, blank lines, comments, label placement, joining instructions) and each '
            'variant, every subset of the rewrite sites is applied and the rewritten program assembled; status and image must equal '
            'those of the base rendering.',
            'Differential oracle against the base rendering of the same program; only instructions are joined on one line.',
            'DESIGN.md 3/C18'),
    'C14': ('fault_enumeration',
            'deviation-bounded enumeration of corruptions of valid programs with invariants checked on every execution',
            'Six base programs that together use every line kind; every single deviation from the menu (drop / duplicate / garble each '
            'token, drop / duplicate each line, insert a zero-length directive at each position, the four must-reject replacements, '
            'expression positions filled with 8..64 tokens) under six output configurations with a pre-seeded output file; thorough: '
            'every pair of line-level deviations; a wide-address family (widths 24..64 x code around 2^16..2^48 x every format) for '
            'failures that arise while outputs are produced. Invariants: termination, no image created or altered on failure, image present on '
            'success, must-reject deviations never succeed.',
            'Termination judged by a 10 s budget (normal runs ~2 ms) and reported only if the real CLI also exceeds 60 s.',
            'DESIGN.md 3/C14'),
    'C15': ('model_checking',
            'schedule exploration of set-iteration order under an import-hook scheduler (deviation-bounded), plus exhaustive CLI environment product',
            'The explorer owns the only internal source of run-to-run variation, set iteration order: every bespokeasm module is loaded '
            'through an AST rewrite that makes each iteration of a set of hash-randomised elements a choice point; for 14 programs x 2 '
            'formats the default schedule (replayed twice) and every schedule with one (thorough two) deviating choice point must give '
            'identical status, image and pretty print. End to end, the same programs x formats run through the real CLI for every '
            'combination of hash seed, working directory, include-directory order, include-directory spelling and environment.',
            'Sets are assumed to be created by set(...)/displays/comprehensions inside bespokeasm; int-only sets are not permuted; dict '
            'order is insertion order. Schedule violations are confirmed by replaying the schedule in a fresh process.',
            'DESIGN.md 3/C15'),
    'C20': ('exploration',
            'exhaustive product of ISA vocabularies x editor targets; generated packages parsed and their category patterns applied to word lists',
            'Vocabularies with two categories varied at a time (thorough: plus every choice of 1..2 mnemonics, <=1 macro, <=2 registers, <=1 predefined name, judged on patterns only) from pools '
            'built to collide, with empty categories, is turned into an ISA definition and both real generators are run; every '
            'generated file must parse in its format (JSON / YAML / property list / XML / zip), contain no ##PLACEHOLDER##, and '
            'the category patterns extracted from the grammar must match every configured word in full and no near-miss identifier '
            'or word of another category; directive, data-type, preprocessor and function keywords must be matched by their patterns; '
            'whole statement lines are tokenised by an interpreter for both grammar formats (mc/tmlite.py: rule stack, rule order, '
            'leftmost match) and the mnemonic / register / literal tokens must come out in their categories.',
            'Python re is assumed to agree with the editors\' regex engines on the constructs used. Candidate violations are confirmed '
            'through `bespokeasm generate-extension` in a subprocess.',
            'DESIGN.md 3/C20'),
}

NOT_BUILT_REASON = 'check not built'


def main():
    checks = []
    for pid in sorted(BUILT):
        cat, tech, text, note, ref = BUILT[pid]
        checks.append({
            'property_id': pid,
            'quick_cmd': f'./check {pid} --tier quick',
            'thorough_cmd': f'./check {pid} --tier thorough',
            'evidence_file': f'/verif/evidence/{pid}.json',
            'replay_cmd_template': f'./check {pid} --replay {{path}}',
            'engine': 'mc-explorer',
            'level_claimed': {'category': cat, 'text': text, 'design_ref': ref},
            'level_note': note,
            'technique': tech,
        })
    na = [{'property_id': pid, 'reason': NOT_BUILT_REASON} for pid in sorted(TITLES) if pid not in BUILT]
    manifest = {
        'version': 1,
        'setup_cmd': './setup.sh',
        'hooks': {
            'guard': 'BESPOKEASM_VERIF',
            'enable': 'none needed: the checks drive the unmodified working tree from outside (module attributes, real files, '
                      'the click callback of `bespokeasm compile`, the real CLI in subprocesses); no instrumentation is compiled in',
            'baseline_off_cmd': 'cd /repo && /venv/bin/python -m pytest -ra -q -p no:cacheprovider --timeout=900',
            'source_commits': [],
            'add_only': True,
        },
        'engines': [{
            'name': 'mc-explorer', 'path': '/verif/mc',
            'serves_properties': sorted(BUILT),
            'kind_free_text': 'hand-written explicit-state / bounded-exhaustive explorer in Python that executes the real assembler '
                              '(in-process through the click callback, confirmed through the CLI) on every enumerated history / '
                              'input shape / configuration and compares with independent reference models',
        }],
        'checks': checks,
        'notes': 'Exit 0 = held on everything explored; exit 1 + VIOLATION line = violation confirmed through the real CLI; '
                 'exit 2 = harness self-check failed (no verdict). Known findings: /verif/known_findings.json.',
        'not_applicable': na,
    }
    with open(os.path.join(HERE, 'MANIFEST.json'), 'w') as f:
        json.dump(manifest, f, indent=1)
    print(f'MANIFEST.json: {len(checks)} checks, {len(na)} not claimed')


if __name__ == '__main__':
    main()
