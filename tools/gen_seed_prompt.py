"""usage: gen_seed_prompt.py <Cxx> <wave>  > /tmp/prompt<wave>_<Cxx>.txt
Prompt for an independent sub-agent that is to seed one property-breaking change in its own scratch worktree /tmp/w<wave>_<Cxx>
(git -C /repo worktree add --detach /tmp/w<wave>_<Cxx> HEAD).  The agent gets the text this prints and nothing else from /verif."""
import sys, glob, json
pid, wave = sys.argv[1], sys.argv[2]
d=f'/tmp/w{wave}_{pid}'
props={json.loads(l)['id']: json.loads(l) for l in open('/verif/properties.jsonl')}
prop=f"{props[pid]['title']}\n\n{props[pid]['statement']}\n\nQuantified over: {props[pid]['quantifier']['text']}\n"
anchors=props[pid]['anchors']['files']
prev=[json.load(open(m))['what'] for m in sorted(glob.glob(f'/verif/seeded/*-{pid}-*/meta.json'))]
prevtxt='\n'.join(f'   - {w}' for w in prev)
print(f"""You are working in a scratch git worktree of the open-source Python project michaelkamprath/bespokeasm (a configurable assembler: YAML/JSON-defined ISA, operand matching, expression parser, label scopes, preprocessor, macros, memory zones, bit-packed output) located at {d}. Work ONLY inside {d} (plus throw-away temp dirs you create). Do NOT read, list or touch /repo, /verif or any other directory: your work must be independent.

Practical notes:
- The package is also installed elsewhere in editable mode, so ALWAYS run python with PYTHONPATH={d}/src so that YOUR worktree's code is used, e.g.
    cd {d} && PYTHONPATH={d}/src /venv/bin/python -m pytest -q -p no:cacheprovider        (81 tests, must all pass)
    PYTHONPATH={d}/src /venv/bin/python -m bespokeasm compile prog.asm -c isa.yaml -o out.bin [-n] [-p -t listing|hex|intel_hex|minhex] [-s N -e N -f N] [-I dir] [-D NAME=VAL]
    PYTHONPATH={d}/src /venv/bin/python -m bespokeasm generate-extension vscode|sublime -c isa.yaml -d outdir
- ISA definitions: see {d}/examples/*/*.yaml and {d}/test/config_files/*.yaml (JSON with the same structure is accepted too).
- No network access.

Here is a semantic property that this program is supposed to satisfy:

{prop}
The code most relevant to it: {', '.join(anchors)} (but a change anywhere under src/ is fine).

YOUR TASK: introduce ONE realistic source change under {d}/src (the kind of bug a developer could plausibly introduce: a refactoring slip, off-by-one, wrong variable, a condition slightly too weak/strong, hoisted/shared mutable state, reordered steps, a 'simplification' of a regex or loop, a cache, an early return, ...) that BREAKS this property, such that:
 (a) the package still imports and runs;
 (b) the existing test suite still passes completely (all 81 tests) with your change;
 (c) it is NOT exposed by ordinary simple use: it must need something specific to manifest (an unusual but legitimate input, a particular configuration or command-line option, a multi-step sequence, a boundary value, two cooperating code sites that each look fine alone, ...). Prefer a subtle change over a blatant one. Do not just delete a whole feature or add `if input == magic`.
 (d) Earlier attempts for this property already used the following mechanisms. Yours must be DIFFERENT: break a different clause of the statement, or the same clause through a different code path, input dimension or configuration dimension (think of what the statement quantifies over and pick a corner nobody listed):
{prevtxt}
Also write a demonstration {d}/demo_{pid}.py: a standalone script that drives the program through its public interface (preferably the CLI via subprocess with files it creates in a temp dir, using PYTHONPATH={d}/src) and exits 0 printing PASS on the ORIGINAL code and exits 1 printing FAIL with your change applied. Verify both claims yourself (use `git diff -- src > p; git checkout -- src; ...; git apply p`).
Finally: save the source change (only files under src/, not the demo) as {d}/patch_{pid}.diff via `git diff -- src > patch_{pid}.diff`, and leave the worktree with the change applied.
In your final answer report: the change (file/lines, before/after), which clause it violates and why, exactly what is needed for it to manifest, and the commands you ran with their outcomes (tests with change: N passed; demo without change: PASS; demo with change: FAIL).""")
