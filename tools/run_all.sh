#!/bin/sh
# runs every registered quick (or $1=thorough) check once; prints one line per check
cd "$(dirname "$0")/.."
TIER="${1:-quick}"
rc_all=0
for id in $(python3 -c "import json;print(' '.join(c['property_id'] for c in json.load(open('MANIFEST.json'))['checks']))"); do
  start=$(date +%s)
  out=$(./check "$id" --tier "$TIER" 2>&1); rc=$?
  end=$(date +%s)
  echo "$id rc=$rc $((end-start))s $(echo "$out" | grep -c '^VIOLATION') violations $(echo "$out" | grep -c '^KNOWN-FINDING') known"
  if [ $rc -ne 0 ]; then rc_all=1; echo "$out" | tail -5; fi
done
exit $rc_all
