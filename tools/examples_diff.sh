#!/bin/sh
# prints the example programs whose digest differs from the pinned-commit baseline
/venv/bin/python /verif/tools/examples_regress.py "${1:-/repo}" > /tmp/ex_now.json
/venv/bin/python - <<'PY'
import json
a=json.load(open('/verif/tools/examples_baseline.json')); b=json.load(open('/tmp/ex_now.json'))
n=0
for k in a:
    if a[k]!=b.get(k):
        n+=1; print('DIFF',k,a[k],'->',b.get(k))
print(f'{len(a)} examples, {n} differ from baseline')
PY
rm -f /tmp/ex_now.json
