"""Assembles every example program shipped in the repository with its ISA and prints a digest per
program; used to see what a `fix:` commit changes on real-world sources (not a registered check)."""
import glob, hashlib, json, os, subprocess, sys, tempfile
repo = sys.argv[1] if len(sys.argv) > 1 else '/repo'
ex = os.path.join(repo, 'examples')
pairs = []
for d in sorted(os.listdir(ex)):
    dd = os.path.join(ex, d)
    if not os.path.isdir(dd):
        continue
    ys = glob.glob(os.path.join(dd, '*.yaml'))
    if not ys:
        continue
    for root, _, files in os.walk(dd):
        for f in sorted(files):
            if f.endswith(('.md', '.yaml', '.pdf', '.gitattributes')):
                continue
            pairs.append((os.path.join(root, f), ys[0]))
res = {}
for src, y in pairs:
    with tempfile.TemporaryDirectory() as t:
        out = os.path.join(t, 'o.bin'); pp = os.path.join(t, 'o.lst')
        p = subprocess.run(['/venv/bin/python', '-m', 'bespokeasm', 'compile', src, '-c', y, '-o', out, '-p',
                            '--pretty-print-output', pp, '-I', os.path.dirname(src)],
                           capture_output=True, text=True, env={**os.environ, 'PYTHONPATH': os.path.join(repo, 'src')}, timeout=300)
        img = hashlib.sha1(open(out, 'rb').read()).hexdigest()[:12] if os.path.exists(out) else None
        lst = hashlib.sha1(open(pp).read().replace(repo, '').encode()).hexdigest()[:12] if os.path.exists(pp) else None
        res[os.path.relpath(src, ex)] = [p.returncode, img, lst, (p.stderr.strip().splitlines() or [''])[-1][:160] if p.returncode else '']
print(json.dumps(res, indent=1))
