#!/bin/sh
# usage: tools/seed_eval.sh <worktree-with-change-applied> <ID> [more IDs...]
# Runs the repository's own tests and the named quick checks against a scratch tree (never /repo).
WT="$1"; shift
cd "$(dirname "$0")/.."
echo "== pytest in $WT"
(cd "$WT" && PYTHONPATH="$WT/src" /venv/bin/python -m pytest -q -p no:cacheprovider 2>&1 | tail -1)
mkdir -p /tmp/seed_ev /tmp/seed_rp
for id in "$@"; do
  out=$(VERIF_REPO="$WT" VERIF_EVIDENCE_DIR=/tmp/seed_ev VERIF_REPLAY_DIR=/tmp/seed_rp ./check "$id" --tier quick 2>&1); rc=$?
  echo "== check $id rc=$rc violations=$(echo "$out" | grep -c '^VIOLATION')"
  echo "$out" | grep -v '^VIOLATION' | grep -v '^\[' | head -3 | cut -c1-300
done
