#!/usr/bin/env python3
"""usage: keep_seed.py <worktree> <seed-id> <property> <caught|missed-then-caught|missed> "<needs>" "<what>" [checks...]
Copies patch + demo of an independently produced, confirmed seeded change into /verif/seeded/<seed-id>/ with meta.json."""
import glob, json, os, shutil, subprocess, sys
wt, sid, prop, result, needs, what = sys.argv[1:7]     # sid: sNNN-Cxx-slug
checks = sys.argv[7:]
d = os.path.join(os.path.dirname(os.path.dirname(os.path.abspath(__file__))), 'seeded', sid)
os.makedirs(d, exist_ok=True)
saved = glob.glob(os.path.join(wt, 'patch_*.diff'))
patch = open(saved[0]).read() if saved else subprocess.check_output(['git', '-C', wt, 'diff', '--', 'src']).decode()
open(os.path.join(d, 'patch.diff'), 'w').write(patch)
for demo in glob.glob(os.path.join(wt, 'demo_*.py')):
    shutil.copy(demo, os.path.join(d, os.path.basename(demo)))
base = subprocess.check_output(['git', '-C', wt, 'rev-parse', '--short', 'HEAD']).decode().strip()
meta = {
    'seed': sid, 'breaks_property': prop, 'what': what, 'needs_to_manifest': needs,
    'origin': 'independent sub-agent given only the property text and a scratch worktree',
    'base_commit_of_repo': base,
    'confirmed_by_me': ['pytest (81 passed) with the change in the scratch worktree',
                        'demo script: PASS without the change, FAIL with it',
                        'checks run with VERIF_REPO=<scratch worktree> (never applied to /repo): ' + ', '.join(checks)],
    'result': result,
}
json.dump(meta, open(os.path.join(d, 'meta.json'), 'w'), indent=1)
print('kept', d)
