"""Runs a few shards of every quick check in this process under coverage.py and prints the lines of
bespokeasm that no check executed: a guide for widening alphabets (not a registered check)."""
import os, sys, io
sys.path.insert(0, os.path.dirname(os.path.dirname(os.path.abspath(__file__))))
import coverage
cov = coverage.Coverage(source=['/repo/src/bespokeasm'], branch=True, data_file='/tmp/verif_cov.data')
cov.start()
from mc import explore, world
props = sys.argv[1:] or [f'C{i:02d}' for i in range(1, 21)]
for pid in props:
    mod = explore.load_prop(pid)
    meta = mod.meta('quick')
    n = meta.get('nshards', 64)
    for idx in (0, 1, n // 2, n - 1):
        acc = explore.Acc(0, 0)
        try:
            mod.shard(acc, 'quick', idx, n)
        except Exception as e:
            print(pid, idx, 'error', type(e).__name__, e)
    print(pid, 'done', file=sys.stderr)
cov.stop()
cov.save()
out = io.StringIO()
cov.report(show_missing=True, file=out, skip_covered=True)
print(out.getvalue())
