#!/bin/sh
# Re-applies every kept seeded change to a scratch worktree of the current /repo HEAD (under /tmp, removed afterwards),
# runs the repository's tests, the seed's demo and the owning quick check against it, and reports whether it is caught.
cd "$(dirname "$0")/.."
mkdir -p /tmp/seedchk_ev /tmp/seedchk_rp
fail=0
for d in seeded/*/; do
  sid=$(basename "$d")
  prop=$(python3 -c "import json;print(json.load(open('$d/meta.json'))['breaks_property'] if 'checked_by' not in json.load(open('$d/meta.json')) else json.load(open('$d/meta.json'))['checked_by'])")
  wt=/tmp/seedchk_$sid
  git -C /repo worktree add -q "$wt" HEAD || { echo "$sid: cannot create worktree"; fail=1; continue; }
  if ! git -C "$wt" apply "$PWD/$d/patch.diff" 2>/dev/null; then
     echo "$sid ($prop): patch no longer applies to HEAD"; git -C /repo worktree remove --force "$wt"; fail=1; continue
  fi
  tests=$(cd "$wt" && PYTHONPATH="$wt/src" /venv/bin/python -m pytest -q -p no:cacheprovider 2>&1 | tail -1)
  demo=$(ls "$d"/demo_*.py | head -1)
  cp "$demo" "$wt/" ; (cd "$wt" && sed -i "s#/tmp/w[a-z0-9]*_C[0-9][0-9]#$wt#g" "$(basename "$demo")" && PYTHONPATH="$wt/src" /venv/bin/python "$(basename "$demo")" >/dev/null 2>&1); drc=$?
  out=$(VERIF_REPO="$wt" VERIF_EVIDENCE_DIR=/tmp/seedchk_ev VERIF_REPLAY_DIR=/tmp/seedchk_rp ./check "$prop" --tier quick 2>&1); rc=$?
  nv=$(echo "$out" | grep -c '^VIOLATION')
  echo "$sid ($prop): tests [$tests] demo_rc=$drc check_rc=$rc violations=$nv"
  [ $rc -eq 1 ] || fail=1
  git -C /repo worktree remove --force "$wt"
done
rm -rf /tmp/seedchk_ev /tmp/seedchk_rp
exit $fail
