#!/bin/sh
# Nothing to build: the checks are pure Python run by /venv/bin/python against /repo's working tree.
# This self-test makes sure the pieces they need are present after a fresh restore.
set -e
cd "$(dirname "$0")"
export PYTHONDONTWRITEBYTECODE=1
/venv/bin/python - <<'PY'
import sys, os, json
sys.path.insert(0, os.getcwd())
from mc import world
world._load()
from mc.world import Case, run_inproc
from mc.probe_isa import probe_isa
o = run_inproc(Case(probe_isa(), 'nop\n'))
assert o.status == 'OK' and o.image == b'\xea', o
m = json.load(open('MANIFEST.json'))
for c in m['checks']:
    __import__('mc.props.' + c['property_id'].lower())
print('setup ok: bespokeasm imported from', world.SRC, '-', len(m['checks']), 'checks registered')
PY
if command -v python3-vt >/dev/null 2>&1; then
python3-vt - <<'PY'
import json, jsonschema
jsonschema.validate(json.load(open('MANIFEST.json')), json.load(open('/root/.vp/MANIFEST.schema.json')))
print('MANIFEST.json valid')
PY
fi
